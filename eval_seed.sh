#!/bin/bash
# usage: eval_seed.sh <ID> [seeddir]   - confirm a seeded change and run the checks against it
# 1. scratch copy of /repo at HEAD; existing tests with the patch; demo fails with / passes without
# 2. run the property's quick check against the patched copy
set -u
ID="$1"; SD="${2:-/tmp/seed_$ID}"
export GOFLAGS=-mod=mod GOPROXY=off GOSUMDB=off GOTOOLCHAIN=local
W=$(mktemp -d /tmp/evalseed.XXXXXX)
git -C /repo worktree add -q --detach "$W/r" HEAD || exit 2
cd "$W/r"
git apply "$( [ -f "$SD/patch_rebased.diff" ] && echo "$SD/patch_rebased.diff" || echo "$SD/patch.diff")" || { echo "PATCH-DOES-NOT-APPLY"; cd /; git -C /repo worktree remove --force "$W/r"; rm -rf "$W"; exit 2; }
echo "== existing tests with the change"
go test -vet=off -count=1 ./... 2>&1 | grep -v "no test files" | grep -v "^ok" | head -5
echo "tests-exit=${PIPESTATUS[0]}"
DEMO=$(ls "$SD"/*_test.go | head -1)
DEST=$(head -3 "$DEMO" | grep -o 'copy to: *[^ ]*' | head -1 | sed 's/copy to: *//')
if [ -n "$DEST" ]; then
  cp "$DEMO" "$DEST"
  PKG=./$(dirname "$DEST")
  RACE=""; grep -qi "\-race" "$SD/notes.md" 2>/dev/null && [ "$ID" = "C17" ] && RACE="-race"
  echo "== demo with the change ($PKG $RACE)"
  go test -vet=off -count=1 $RACE -run 'Demo|demo|Seed|C[0-9][0-9]' "$PKG" 2>&1 | tail -4
  git apply -R "$( [ -f "$SD/patch_rebased.diff" ] && echo "$SD/patch_rebased.diff" || echo "$SD/patch.diff")"
  echo "== demo without the change"
  go test -vet=off -count=1 $RACE -run 'Demo|demo|Seed|C[0-9][0-9]' "$PKG" 2>&1 | tail -3
  rm -f "$DEST"
  git apply "$( [ -f "$SD/patch_rebased.diff" ] && echo "$SD/patch_rebased.diff" || echo "$SD/patch.diff")"
fi
echo "== check $ID against the change"
cd /verif && timeout 3000 bin/gclverify check --property "$ID" --repo "$W/r" --no-evidence 2>&1 | sed 's/model=map\[[^]]*\]//' | grep -E "^SUMMARY|^VIOLATION|^INCONCLUSIVE|violation:|^KNOWN" | cut -c1-400 | head -12
rm -rf /verif/replays
cd /; git -C /repo worktree remove --force "$W/r"; rm -rf "$W"
