#!/usr/bin/env python3
# Regenerates MANIFEST.json from the table below (kept in one place so it stays valid).
import json
LEVEL_NOTE = ("Trusted base: go/ssa's translation of Go to SSA; this engine's instruction semantics (validated by concrete re-execution "
  "and native `go test -overlay` replay of every counter-example); environment stubs (clock = arbitrary non-decreasing instants, rand = arbitrary in range, "
  "fmt/log = no effect, metric registries/listeners = recording doubles); tier-R rounded-real axioms of IEEE-754; SMT solvers z3 4.8.12 / 5.1.0 / cvc5 1.0. "
  "Bounds (unwindings, constant lists, value ranges, thread counts) are per harness and listed in the evidence; nothing outside them is claimed.")
CHECKS = {
 # id: (text, design_ref, technique)
}
def add(pid, text, ref, tech):
    CHECKS[pid]=(text,ref,tech)
NA = {}
exec(open('manifest_table.py').read())
checks=[]
for pid in sorted(CHECKS):
    text,ref,tech=CHECKS[pid]
    checks.append({
      "property_id": pid,
      "quick_cmd": f"./check.sh {pid} quick",
      "thorough_cmd": f"./check.sh {pid} thorough",
      "evidence_file": f"/verif/evidence/{pid}.json",
      "replay_cmd_template": "cat {path}/model.json {path}/result.txt",
      "engine": "gclverify",
      "level_claimed": {"category":"model_checking","text":text,"design_ref":ref},
      "level_note": LEVEL_NOTE,
      "technique": tech,
    })
m={
 "version":1,
 "setup_cmd":"cd /verif && export GOFLAGS=-mod=mod GOPROXY=off GOSUMDB=off GOTOOLCHAIN=local GOWORK=off && mkdir -p bin && (cd engine && go build -o ../bin/gclverify .)",
 "hooks":{"guard":"verif","enable":"harnesses are injected as overlay files (go/packages Overlay and `go test -overlay`, build tag `verif`); no file of /repo is modified for hooks",
          "baseline_off_cmd":"cd /repo && GOFLAGS=-mod=mod GOPROXY=off GOSUMDB=off GOTOOLCHAIN=local go test -vet=off -count=1 ./...",
          "source_commits":[], "add_only":True},
 "engines":[{"name":"gclverify","path":"/verif/engine","serves_properties":sorted(CHECKS),
   "kind_free_text":"symbolic executor over go/ssa (x/tools v0.29.0) of the real code -> SMT-LIB2 (bit-vectors + IEEE FP, or Int + rounded reals) -> z3/z3-new/cvc5; counter-examples replayed concretely and natively"}],
 "checks":checks,
 "not_applicable":[{"property_id":k,"reason":v} for k,v in sorted(NA.items())],
 "notes":"See DESIGN.md. Exit codes: 0 held within bounds (KNOWN-FINDING lines possible), 1 VIOLATION (replayed), 3 INCONCLUSIVE (solver timeout / unsupported construct / vacuous harness)."
}
json.dump(m,open('MANIFEST.json','w'),indent=1)
print("checks:",len(checks),"n/a:",len(NA))
