//go:build verif

package grpc

import (
	"context"
	"errors"

	golangGrpc "google.golang.org/grpc"
	"google.golang.org/grpc/codes"
	"google.golang.org/grpc/metadata"

	"github.com/platinummonkey/go-concurrency-limits/core"
	verif "github.com/platinummonkey/go-concurrency-limits/zz_verifrt"
)

type recListener struct{ success, ignore, dropped int }

func (l *recListener) OnSuccess() { l.success++ }
func (l *recListener) OnIgnore()  { l.ignore++ }
func (l *recListener) OnDropped() { l.dropped++ }
func (l *recListener) total() int { return l.success + l.ignore + l.dropped }

type recLimiter struct {
	name     string
	grant    bool
	calls    int
	listener *recListener
}

func (d *recLimiter) Acquire(ctx context.Context) (core.Listener, bool) {
	d.calls++
	if !d.grant {
		return nil, false
	}
	d.listener = &recListener{}
	return d.listener, true
}

func verifOutcomeOK(l *recListener, rt ResponseType) bool {
	return l.total() == 1 && (rt == ResponseTypeSuccess) == (l.success == 1) && (rt == ResponseTypeIgnore) == (l.ignore == 1) && (rt == ResponseTypeDropped) == (l.dropped == 1)
}

// verifRotate returns opts rotated left by k.
func verifRotate(opts []InterceptorOption, k int) []InterceptorOption {
	return append(append([]InterceptorOption{}, opts[k:]...), opts[:k]...)
}

var verifCodes = []codes.Code{codes.ResourceExhausted, codes.Unavailable, codes.Aborted}

// VerifC14_UnaryServer: the unary server interceptor with a configured limiter: the handler runs iff
// the limiter granted; the token is completed exactly once with the outcome chosen by the configured
// (or default) response classifier; the handler's response and error are returned unchanged; on
// refusal no handler call, no token, and the status code of the limit-exceeded classifier.
//
//verif:harness property=C14 theory=bv tier=quick replay=engine
func VerifC14_UnaryServer() {
	lim := &recLimiter{grant: verif.Bool("grant")}
	handlerErrNil := verif.Bool("handlerErrNil")
	customClassifier := verif.Bool("customResponseClassifier")
	customExceeded := verif.Bool("customExceededClassifier")
	rt := ResponseType(verif.Choice("classified", 3))
	code := verifCodes[verif.Choice("code", len(verifCodes))]
	opts := []InterceptorOption{WithName("n"), WithLimiter(lim), WithTags([]string{"k", "v"})}
	if customClassifier {
		opts = append(opts, WithServerResponseTypeClassifier(func(ctx context.Context, req interface{}, info *golangGrpc.UnaryServerInfo, resp interface{}, err error) ResponseType {
			return rt
		}))
	}
	if customExceeded {
		opts = append(opts, WithLimitExceededResponseClassifier(func(ctx context.Context, method string, req interface{}, l core.Limiter) (interface{}, codes.Code, error) {
			return "busy", code, errors.New("busy") // `code` is re-assigned before the second call below
		}))
	}
	// options are order-independent: every rotation of the list (a stated bound on the n! orders)
	opts = verifRotate(opts, verif.Choice("rotation", len(opts)))
	ic := UnaryServerInterceptor(opts...)
	handlerCalls := 0
	herr := errors.New("handler failed")
	handler := func(ctx context.Context, req interface{}) (interface{}, error) {
		handlerCalls++
		if handlerErrNil {
			return "resp", nil
		}
		return "resp", herr
	}
	resp, err := ic(context.Background(), "req", &golangGrpc.UnaryServerInfo{FullMethod: "/svc/m"}, handler)
	verif.Assert("unary-server-acquired-from-configured-limiter", lim.calls == 1)
	if !lim.grant {
		verif.Assert("unary-server-refused-no-call", handlerCalls == 0 && lim.listener == nil)
		want := codes.ResourceExhausted
		if customExceeded {
			want = code
		}
		verif.Assert("unary-server-refused-status", err != nil && verif.StatusCode(err) == uint32(want))
		if customExceeded {
			verif.Assert("unary-server-refused-response", resp == "busy")
		}
		// a second refused call on the same interceptor and method: the classifier is consulted again
		// (its answer may differ from call to call)
		code = verifCodes[verif.Choice("code2", len(verifCodes))]
		_, err2 := ic(context.Background(), "req2", &golangGrpc.UnaryServerInfo{FullMethod: "/svc/m"}, handler)
		want2 := codes.ResourceExhausted
		if customExceeded {
			want2 = code
		}
		verif.Assert("unary-server-second-refusal-classified-again", handlerCalls == 0 && lim.calls == 2 && err2 != nil && verif.StatusCode(err2) == uint32(want2))
		verif.Reach("refused")
		return
	}
	verif.Assert("unary-server-handler-once", handlerCalls == 1)
	want := rt
	if !customClassifier {
		want = ResponseTypeSuccess
		if !handlerErrNil {
			want = ResponseTypeDropped
		}
	}
	verif.Assert("unary-server-token-once-classified", verifOutcomeOK(lim.listener, want))
	verif.Assert("unary-server-result-unchanged", resp == "resp" && (handlerErrNil == (err == nil)) && (handlerErrNil || err == herr))
	verif.Reach("granted")
}

// VerifC14_UnaryClient: same for the unary client interceptor.
//
//verif:harness property=C14 theory=bv tier=quick replay=engine
func VerifC14_UnaryClient() {
	lim := &recLimiter{grant: verif.Bool("grant")}
	invErrNil := verif.Bool("invokerErrNil")
	customClassifier := verif.Bool("customResponseClassifier")
	rt := ResponseType(verif.Choice("classified", 3))
	customExceeded := verif.Bool("customExceededClassifier")
	code := verifCodes[verif.Choice("code", len(verifCodes))]
	opts := []InterceptorOption{WithLimiter(lim), WithName("c"), WithTags([]string{"k", "v"})}
	if customExceeded {
		opts = append(opts, WithLimitExceededResponseClassifier(func(ctx context.Context, method string, req interface{}, l core.Limiter) (interface{}, codes.Code, error) {
			return nil, code, errors.New("busy")
		}))
	}
	if customClassifier {
		opts = append(opts, WithClientResponseTypeClassifier(func(ctx context.Context, method string, req, reply interface{}, err error) ResponseType {
			return rt
		}))
	}
	opts = verifRotate(opts, verif.Choice("rotation", len(opts)))
	ic := UnaryClientInterceptor(opts...)
	calls := 0
	ierr := errors.New("invoke failed")
	invoker := func(ctx context.Context, method string, req, reply interface{}, cc *golangGrpc.ClientConn, opts ...golangGrpc.CallOption) error {
		calls++
		if invErrNil {
			return nil
		}
		return ierr
	}
	err := ic(context.Background(), "/svc/m", "req", "reply", nil, invoker)
	verif.Assert("unary-client-acquired-from-configured-limiter", lim.calls == 1)
	if !lim.grant {
		verif.Assert("unary-client-refused-no-call", calls == 0 && lim.listener == nil)
		want := codes.ResourceExhausted
		if customExceeded {
			want = code
		}
		verif.Assert("unary-client-refused-status", err != nil && verif.StatusCode(err) == uint32(want))
		code = verifCodes[verif.Choice("code2", len(verifCodes))]
		err2 := ic(context.Background(), "/svc/m", "req2", "reply", nil, invoker)
		want2 := codes.ResourceExhausted
		if customExceeded {
			want2 = code
		}
		verif.Assert("unary-client-second-refusal-classified-again", calls == 0 && lim.calls == 2 && err2 != nil && verif.StatusCode(err2) == uint32(want2))
		verif.Reach("refused")
		return
	}
	want := rt
	if !customClassifier {
		want = ResponseTypeSuccess
		if !invErrNil {
			want = ResponseTypeDropped
		}
	}
	verif.Assert("unary-client-invoked-once", calls == 1)
	verif.Assert("unary-client-token-once-classified", verifOutcomeOK(lim.listener, want))
	verif.Assert("unary-client-result-unchanged", invErrNil == (err == nil) && (invErrNil || err == ierr))
	verif.Reach("granted")
}

// recStream: recording grpc.ServerStream double.
type recStream struct {
	recvs, sends int
	recvErr      error
	sendErr      error
}

func (s *recStream) SetHeader(metadata.MD) error  { return nil }
func (s *recStream) SendHeader(metadata.MD) error { return nil }
func (s *recStream) SetTrailer(metadata.MD)       {}
func (s *recStream) Context() context.Context     { return context.Background() }
func (s *recStream) SendMsg(m interface{}) error  { s.sends++; return s.sendErr }
func (s *recStream) RecvMsg(m interface{}) error  { s.recvs++; return s.recvErr }

// VerifC14_Stream: the server-stream wrapper: a sequence of up to three RecvMsg/SendMsg operations;
// each receive acquires from the receive limiter and each send from the SEND limiter, the wrapped
// operation runs iff granted, the token is completed exactly once (success when the operation
// returns nil, else the classifier's choice), the operation's error is returned unchanged; on
// refusal the configured limit-exceeded classifier for that direction decides the status code.
//
//verif:harness property=C14 theory=bv tier=quick replay=engine maxpaths=120000
func VerifC14_Stream() {
	recvLim := &recLimiter{name: "recv", grant: verif.Bool("recvGrant")}
	sendLim := &recLimiter{name: "send", grant: verif.Bool("sendGrant")}
	rtRecv := ResponseType(verif.Choice("recvClassified", 3))
	rtSend := ResponseType(verif.Choice("sendClassified", 3))
	custom := verif.Bool("customClassifiers")
	opts := []StreamInterceptorOption{WithStreamRecvName("r"), WithStreamSendName("s"), WithStreamRecvLimiter(recvLim), WithStreamSendLimiter(sendLim)}
	if custom {
		opts = append(opts,
			WithStreamServerResponseTypeClassifier(func(ctx context.Context, req interface{}, info *golangGrpc.StreamServerInfo, err error) ResponseType {
				return rtRecv
			}),
			WithStreamClientResponseTypeClassifier(func(ctx context.Context, req interface{}, info *golangGrpc.StreamServerInfo, err error) ResponseType {
				return rtSend
			}),
			WithStreamRecvLimitExceededResponseClassifier(func(ctx context.Context, method string, req interface{}, l core.Limiter) (interface{}, codes.Code, error) {
				return nil, codes.Unavailable, errors.New("recv busy")
			}),
			WithStreamSendLimitExceededResponseClassifier(func(ctx context.Context, method string, req interface{}, l core.Limiter) (interface{}, codes.Code, error) {
				return nil, codes.Aborted, errors.New("send busy")
			}))
	}
	if k := verif.Choice("rotation", verif.Tiered(3, len(opts))); k > 0 {
		opts = append(append([]StreamInterceptorOption{}, opts[k:]...), opts[:k]...)
	}
	ic := StreamServerInterceptor(opts...)
	ss := &recStream{}
	if !verif.Bool("recvErrNil") {
		ss.recvErr = errors.New("recv failed")
	}
	if !verif.Bool("sendErrNil") {
		ss.sendErr = errors.New("send failed")
	}
	handlerErr := errors.New("handler result")
	nops := 1 + verif.Choice("ops", verif.Tiered(3, 4))
	herr := ic("srv", ss, &golangGrpc.StreamServerInfo{FullMethod: "/svc/stream"}, func(srv interface{}, stream golangGrpc.ServerStream) error {
		for i := 0; i < nops; i++ {
			isSend := verif.Bool("opIsSend")
			verif.Class("op_is_send", isSend)
			lim, other := recvLim, sendLim
			wrappedBefore := ss.recvs
			opErr := ss.recvErr
			rt := rtRecv
			refusedCode := codes.Unavailable
			if isSend {
				lim, other = sendLim, recvLim
				wrappedBefore = ss.sends
				opErr = ss.sendErr
				rt = rtSend
				refusedCode = codes.Aborted
			}
			callsBefore, otherBefore := lim.calls, other.calls
			lim.listener = nil
			var err error
			if isSend {
				err = stream.SendMsg("m")
			} else {
				err = stream.RecvMsg("m")
			}
			wrappedAfter := ss.recvs
			if isSend {
				wrappedAfter = ss.sends
			}
			verif.Assert("stream-acquires-from-right-limiter", lim.calls == callsBefore+1 && other.calls == otherBefore)
			if !lim.grant {
				verif.Assert("stream-refused-no-call-no-token", wrappedAfter == wrappedBefore && lim.listener == nil)
				want := codes.ResourceExhausted
				if custom {
					want = refusedCode
				}
				verif.Assert("stream-refused-status", err != nil && verif.StatusCode(err) == uint32(want))
				continue
			}
			verif.Assert("stream-op-runs-once", wrappedAfter == wrappedBefore+1)
			want := ResponseTypeSuccess
			if opErr != nil {
				want = ResponseTypeDropped
				if custom {
					want = rt
				}
			}
			verif.Assert("stream-token-once-classified", lim.listener != nil && verifOutcomeOK(lim.listener, want))
			verif.Assert("stream-result-unchanged", err == opErr)
		}
		return handlerErr
	})
	verif.Assert("stream-handler-result-unchanged", herr == handlerErr)
	verif.Reach("end")
}

// VerifC14_Defaults: without a limiter option the interceptors use their own default limiter (which
// grants) and the default classifiers.
//
//verif:harness property=C14 theory=bv tier=quick replay=engine
func VerifC14_Defaults() {
	ic := UnaryServerInterceptor()
	calls := 0
	resp, err := ic(context.Background(), "req", &golangGrpc.UnaryServerInfo{FullMethod: "/svc/m"}, func(ctx context.Context, req interface{}) (interface{}, error) {
		calls++
		return "ok", nil
	})
	verif.Assert("defaults-unary-runs", calls == 1 && resp == "ok" && err == nil)
	verif.Reach("end")
}
