//go:build verif

package measurements

// Constructors used by harnesses in other packages to build arbitrary (symbolic) states of
// measurements whose fields are unexported.  Add-only, verif-tagged, injected by overlay.

// VerifExpAvg builds an ExponentialAverageMeasurement in an arbitrary state.
func VerifExpAvg(value, sum float64, window, warmup, count int) *ExponentialAverageMeasurement {
	return &ExponentialAverageMeasurement{value: value, sum: sum, window: window, warmupWindow: warmup, count: count}
}

// VerifExpAvgState exposes the state of an ExponentialAverageMeasurement.
func VerifExpAvgState(m *ExponentialAverageMeasurement) (value, sum float64, count int) {
	return m.value, m.sum, m.count
}

// VerifMinimum builds a MinimumMeasurement holding v.
func VerifMinimum(v float64) *MinimumMeasurement { return &MinimumMeasurement{value: v} }

// VerifSingle builds a SingleMeasurement holding v.
func VerifSingle(v float64) *SingleMeasurement { return &SingleMeasurement{value: v} }

// VerifWindow builds an ImmutableSampleWindow with exactly these fields.
func VerifWindow(start, minRTT, sum int64, maxInFlight, count int, didDrop bool) *ImmutableSampleWindow {
	return &ImmutableSampleWindow{startTime: start, minRTT: minRTT, sum: sum, maxInFlight: maxInFlight, sampleCount: count, didDrop: didDrop}
}

// VerifWindowFields exposes all fields of a window.
func VerifWindowFields(w *ImmutableSampleWindow) (start, minRTT, sum int64, maxInFlight, count int, didDrop bool) {
	return w.startTime, w.minRTT, w.sum, w.maxInFlight, w.sampleCount, w.didDrop
}
