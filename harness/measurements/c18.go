//go:build verif

package measurements

import (
	"math"

	verif "github.com/platinummonkey/go-concurrency-limits/zz_verifrt"
)

// verifPos: a positive finite sample in [1, 4.6e18] (RTTs are whole nanoseconds up to 2^62; the
// sub-unit / subnormal range is outside the claim: tier R carries an absolute 2^-1075 error term).
func verifPos(name string) float64 {
	x := verif.Float(name)
	verif.Assume(x >= 1 && x <= 4.6e18)
	return x
}

// VerifC18_Minimum: inductive step with a ghost minimum (0 = no sample since reset): Get() equals the
// minimum of the samples since reset, Add's flag is true iff the stored value changed, Reset gives a
// fresh instance.
//
//verif:harness property=C18 theory=real tier=quick
func VerifC18_Minimum() {
	ghost := verif.Float("ghostMin")
	verif.Assume(ghost >= 0 && ghost <= 4.6e18)
	m := &MinimumMeasurement{value: ghost}
	x := verifPos("sample")
	before := m.Get()
	got, changed := m.Add(x)
	want := ghost
	if ghost == 0 || x < ghost {
		want = x
	}
	verif.Assert("minimum-value", got == want && m.Get() == want)
	verif.Assert("minimum-flag-iff-changed", changed == (m.Get() != before))
	m.Reset()
	verif.Assert("minimum-reset-fresh", m.value == (&MinimumMeasurement{}).value)
	verif.Reach("end")
}

// VerifC18_Single: latest value, flag true whenever the value changed, Reset fresh.
//
//verif:harness property=C18 theory=real tier=quick
func VerifC18_Single() {
	old := verif.Float("old")
	verif.Assume(old >= 0 && old <= 4.6e18)
	m := &SingleMeasurement{value: old}
	x := verifPos("sample")
	got, changed := m.Add(x)
	verif.Assert("single-latest", got == x && m.Get() == x)
	if x != old {
		verif.Assert("single-flag-when-changed", changed)
	}
	m.Update(func(v float64) float64 { return v + 1 })
	verif.Assert("single-update", m.Get() == x+1)
	m.Reset()
	verif.Assert("single-reset-fresh", m.value == (&SingleMeasurement{}).value)
	verif.Reach("end")
}

// VerifC18_ExpAvg: during warm-up the value is the arithmetic mean sum/count of the samples so far
// (ghost: sum and count are the fold of the samples); afterwards the new value stays between the old
// value and the sample (up to rounding noise), hence within the hull of everything seen; Reset gives
// a fresh instance of the same configuration.
//
//verif:harness property=C18 theory=real tier=quick timeout=60
func VerifC18_ExpAvg() {
	windows := []int{100, 600, 10, 1}
	window := windows[verif.Choice("window", verif.Tiered(2, len(windows)))]
	// warm-up window 10 (the value used by Gradient2, the only user in the repository); the sample
	// count is enumerated so that sum/count is a division by a constant
	warm := 10
	count := verif.Choice("count", 11)
	value := verif.Float("value")
	sum := verif.Float("sum")
	verif.Assume((value >= 1 || value == 0) && value <= 4.6e18 && sum >= 0 && sum <= 4.6e21)
	lo, hi := verif.Float("ghostLo"), verif.Float("ghostHi") // hull of the samples seen so far
	verif.Assume(lo >= 1 && lo <= hi && hi <= 4.6e18)
	verif.Assume(count != 0 || (value == 0 && sum == 0))
	verif.Assume(count == 0 || (value >= lo*(1-1e-9) && value <= hi*(1+1e-9)))
	verif.Assume(count == 0 || (sum >= lo*float64(count)*(1-1e-9) && sum <= hi*float64(count)*(1+1e-9)))
	m := &ExponentialAverageMeasurement{value: value, sum: sum, window: window, warmupWindow: warm, count: count}
	x := verifPos("sample")
	got, _ := m.Add(x)
	nlo, nhi := math.Min(lo, x), math.Max(hi, x)
	if count < warm {
		verif.Assert("expavg-warmup-is-mean", got == (sum+x)/float64(count+1) && m.count == count+1 && m.sum == sum+x)
		if count == 0 {
			verif.Assert("expavg-first-sample", got == x)
		}
		verif.Assert("expavg-warmup-in-hull", got >= nlo*(1-2e-9) && got <= nhi*(1+2e-9))
	} else if count > 0 {
		verif.Assert("expavg-in-hull", got >= math.Min(value, x)*(1-1e-12) && got <= math.Max(value, x)*(1+1e-12))
	}
	verif.Assert("expavg-get", m.Get() == got)
	m.Reset()
	f := NewExponentialAverageMeasurement(window, warm)
	verif.Assert("expavg-reset-fresh", m.value == f.value && m.sum == f.sum && m.count == f.count && m.window == f.window && m.warmupWindow == f.warmupWindow)
	verif.Reach("end")
}

// alpha decides the warm-up length ceil(1/alpha): 0.05 -> 20, 0.6 -> 2 (ceil != floor), 0.5 -> 2, 1.0 -> 1, 0.3 -> 4 (ceil != floor)
var verifAlphas = []float64{0.05, 0.6, 0.5, 1.0, 0.3, 0.01}

// VerifC18_MovingAverage: flag iff changed; the value stays within the hull of (old value, sample)
// once a sample has been seen; Reset fresh.
//
//verif:harness property=C18 theory=real tier=quick timeout=60
func VerifC18_MovingAverage() {
	alpha := verifAlphas[verif.Choice("alpha", verif.Tiered(2, len(verifAlphas)))]
	m, err := NewSimpleExponentialMovingAverage(alpha)
	verif.Assert("ema-constructed", err == nil)
	// the arithmetic-mean warm-up lasts ceil(1/alpha) samples
	verif.Assert("ema-warmup-length-is-ceil-of-inverse-alpha", m.minSamples == int(math.Ceil(1/alpha)))
	// number of samples seen so far, enumerated (0, 1, 2, minSamples-1, minSamples) so that the
	// warm-up weight 1/seen is a constant
	seen := []int{0, 1, 2, m.minSamples - 1, m.minSamples}[verif.Choice("seen", 5)]
	verif.Assume(seen >= 0 && seen <= m.minSamples)
	value := verif.Float("value")
	verif.Assume((value >= 1 || value == 0) && value <= 4.6e18 && (seen > 0 || value == 0))
	m.seenSamples = seen
	m.value = value
	x := verifPos("sample")
	got, changed := m.Add(x)
	verif.Assert("ema-flag-iff-changed", changed == (got != value))
	if seen == 0 {
		verif.Assert("ema-first-sample", got == x)
	} else {
		verif.Assert("ema-in-hull", got >= math.Min(value, x)*(1-1e-12) && got <= math.Max(value, x)*(1+1e-12))
	}
	m.Reset()
	f, _ := NewSimpleExponentialMovingAverage(alpha)
	verif.Assert("ema-reset-fresh", m.value == f.value && m.seenSamples == f.seenSamples && m.alpha == f.alpha && m.initialAlpha == f.initialAlpha && m.minSamples == f.minSamples)
	verif.Reach("end")
}

// VerifC18_Variance: Get() (the variance estimate) is never negative; Reset gives a fresh instance
// (recursively through the owned averages).
//
//verif:harness property=C18 theory=real tier=quick timeout=60
func VerifC18_Variance() {
	alpha := verifAlphas[verif.Choice("alpha", verif.Tiered(2, len(verifAlphas)))]
	m, err := NewSimpleMovingVariance(alpha, alpha)
	verif.Assert("variance-constructed", err == nil)
	seenA := verif.Int("seenAvg")
	seenV := verif.Int("seenVar")
	verif.Assume(seenA >= 0 && seenA <= m.average.minSamples && seenV >= 0 && seenV <= m.variance.minSamples)
	avg, vr := verif.Float("avg"), verif.Float("var")
	verif.Assume(avg >= 0 && avg <= 4.6e18 && vr >= 0 && vr <= 1e37)
	m.average.seenSamples, m.average.value = seenA, avg
	m.variance.seenSamples, m.variance.value = seenV, vr
	x := verifPos("sample")
	// reference fold (twin averages in the same state): the variance estimate is the moving average
	// of the squared deviation from the mean BEFORE the sample, taken for every sample but the very
	// first one; the mean is the moving average of the samples
	refAvg, _ := NewSimpleExponentialMovingAverage(alpha)
	refVar, _ := NewSimpleExponentialMovingAverage(alpha)
	refAvg.seenSamples, refAvg.value = seenA, avg
	refVar.seenSamples, refVar.value = seenV, vr
	if seenA > 0 {
		refVar.Add(math.Pow(x-avg, 2))
	}
	refAvg.Add(x)
	m.Add(x)
	verif.Assert("variance-nonneg", m.Get() >= 0)
	verif.Assert("variance-is-moving-average-of-squared-deviation", m.variance.value == refVar.value && m.variance.seenSamples == refVar.seenSamples)
	verif.Assert("variance-mean-is-moving-average-of-samples", m.average.value == refAvg.value && m.average.seenSamples == refAvg.seenSamples)
	verif.Assert("variance-get-reports-the-estimate", m.Get() == refVar.value)
	m.Reset()
	f, _ := NewSimpleMovingVariance(alpha, alpha)
	verif.Assert("variance-reset-fresh", m.stdev == f.stdev && m.normalized == f.normalized &&
		m.average.value == f.average.value && m.average.seenSamples == f.average.seenSamples && m.average.alpha == f.average.alpha &&
		m.variance.value == f.variance.value && m.variance.seenSamples == f.variance.seenSamples && m.variance.alpha == f.variance.alpha)
	verif.Reach("end")
}

// VerifC18_Percentile_Reset: after Reset the percentile estimator equals a freshly constructed one
// field by field (recursively), from an arbitrary state.
//
//verif:harness property=C18 theory=real tier=quick timeout=60
func VerifC18_Percentile_Reset() {
	m, err := NewWindowlessMovingPercentile(0.9, 0.01, 0.05, 0.05)
	verif.Assert("percentile-constructed", err == nil)
	m.value = verifPos("value")
	m.delta = verifPos("delta")
	m.seenCount = 2
	m.deltaState.stdev = verifPos("stdev")
	m.deltaState.normalized = verif.Float("normalized")
	m.deltaState.average.value = verifPos("avg")
	m.deltaState.average.seenSamples = 3
	m.deltaState.variance.value = verifPos("var")
	m.deltaState.variance.seenSamples = 2
	m.Reset()
	f, _ := NewWindowlessMovingPercentile(0.9, 0.01, 0.05, 0.05)
	verif.Assert("percentile-reset-value", m.value == f.value && m.seenCount == f.seenCount)
	verif.Assert("percentile-reset-delta", m.delta == f.delta)
	verif.Assert("percentile-reset-delta-state", m.deltaState.stdev == f.deltaState.stdev && m.deltaState.normalized == f.deltaState.normalized &&
		m.deltaState.average.value == f.deltaState.average.value && m.deltaState.average.seenSamples == f.deltaState.average.seenSamples &&
		m.deltaState.variance.value == f.deltaState.variance.value && m.deltaState.variance.seenSamples == f.deltaState.variance.seenSamples)
	verif.Reach("end")
}

// VerifC18_Percentile_Add: Add never panics and its flag is true whenever the value changed.
//
//verif:harness property=C18 theory=real tier=quick timeout=60
func VerifC18_Percentile_Add() {
	m, _ := NewWindowlessMovingPercentile(0.9, 0.01, 0.05, 0.05)
	seen := verif.Choice("seen", 3)
	m.seenCount = seen
	v := verif.Float("value")
	verif.Assume(v >= 0 && v <= 4.6e18 && (seen > 0 || v == 0))
	m.value = v
	d := verif.Float("delta")
	verif.Assume(d >= 0 && d <= 1e18)
	m.delta = d
	if seen > 0 {
		m.deltaState.average.seenSamples = seen
		m.deltaState.average.value = verifPos("avg")
		vv := verif.Float("var")
		verif.Assume(vv >= 0 && vv <= 1e36)
		m.deltaState.variance.value = vv
		m.deltaState.variance.seenSamples = seen - 1
	}
	x := verifPos("sample")
	got, changed := m.Add(x)
	if got != v {
		verif.Assert("percentile-flag-when-changed", changed)
	}
	verif.Assert("percentile-get", m.Get() == got)
	verif.Reach("end")
}

// VerifC18_Window: the immutable sample window summarises exactly the samples added, independent of
// their order (two samples, all four kinds), and never modifies its receiver.
//
//verif:harness property=C18 theory=bv tier=quick
func VerifC18_Window() {
	minRTT, sum := verif.Int64("w.minRTT"), verif.Int64("w.sum")
	maxIF, count := verif.Int("w.maxInFlight"), verif.Int("w.count")
	drop := verif.Bool("w.didDrop")
	verif.Assume(count >= 0 && count < 1<<30 && sum >= 0 && sum < 1<<61 && maxIF >= 0 && maxIF < 1<<31 && minRTT >= 0)
	w := &ImmutableSampleWindow{startTime: 5, minRTT: minRTT, sum: sum, maxInFlight: maxIF, sampleCount: count, didDrop: drop}
	r1, r2 := verif.Int64("rtt1"), verif.Int64("rtt2")
	f1, f2 := verif.Int("inflight1"), verif.Int("inflight2")
	d1, d2 := verif.Bool("drop1"), verif.Bool("drop2")
	verif.Assume(r1 >= 0 && r1 < 1<<60 && r2 >= 0 && r2 < 1<<60 && f1 >= 0 && f1 < 1<<31 && f2 >= 0 && f2 < 1<<31)
	add := func(x *ImmutableSampleWindow, r int64, f int, d bool) *ImmutableSampleWindow {
		if d {
			return x.AddDroppedSample(7, f)
		}
		return x.AddSample(7, r, f)
	}
	a := add(add(w, r1, f1, d1), r2, f2, d2)
	b := add(add(w, r2, f2, d2), r1, f1, d1)
	verif.Assert("window-order-independent", a.minRTT == b.minRTT && a.sum == b.sum && a.maxInFlight == b.maxInFlight && a.sampleCount == b.sampleCount && a.didDrop == b.didDrop)
	// ghost fold
	gMin, gSum, gMax, gCnt, gDrop := minRTT, sum, maxIF, count, drop
	fold := func(r int64, f int, d bool) {
		if d {
			gDrop = true
		} else {
			if r < gMin {
				gMin = r
			}
			gSum += r
			gCnt++
		}
		if f > gMax {
			gMax = f
		}
	}
	fold(r1, f1, d1)
	fold(r2, f2, d2)
	verif.Assert("window-is-fold", a.CandidateRTTNanoseconds() == gMin && a.sum == gSum && a.MaxInFlight() == gMax && a.SampleCount() == gCnt && a.DidDrop() == gDrop)
	if gCnt > 0 {
		verif.Assert("window-average", a.AverageRTTNanoseconds() == gSum/int64(gCnt))
	} else {
		verif.Assert("window-average-empty", a.AverageRTTNanoseconds() == 0)
	}
	verif.Assert("window-immutable", w.minRTT == minRTT && w.sum == sum && w.maxInFlight == maxIF && w.sampleCount == count && w.didDrop == drop && w.startTime == 5)
	verif.Reach("end")
}
