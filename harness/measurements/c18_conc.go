//go:build verif

package measurements

import (
	verif "github.com/platinummonkey/go-concurrency-limits/zz_verifrt"
)

// VerifC18_Minimum_ConcurrentAdds (event-order): one MinimumMeasurement in an arbitrary state (no
// sample yet, or any positive minimum), two threads adding arbitrary positive samples concurrently
// and a third one reading: under every interleaving, once both Adds have returned Get() is the
// minimum of the previous minimum and both samples (an Add that lowers the minimum is never
// overwritten by a concurrent Add of a larger sample), a concurrent Get sees the previous value or
// one of the samples, and Add's flag is true iff that Add changed the stored value.
//
//verif:harness property=C18 theory=bv tier=quick maxpaths=20000 clock=frozen
func VerifC18_Minimum_ConcurrentAdds() {
	m := &MinimumMeasurement{}
	v0 := verif.Float("min0")
	verif.Assume(v0 == 0 || (v0 >= 1 && v0 <= 4.6e18))
	m.value = v0
	x, y := verifPos("x"), verifPos("y")
	var rx, ry, seen float64
	var fx, fy bool
	verif.Spawn("ax", func() { rx, fx = m.Add(x) })
	verif.Spawn("ay", func() { ry, fy = m.Add(y) })
	verif.Spawn("get", func() { seen = m.Get() })
	verif.Parallel()
	got := m.value
	isLower := verif.And(verif.And(got <= x, got <= y), verif.Implies(v0 != 0, got <= v0))
	isOne := verif.Or(verif.Or(got == x, got == y), verif.And(v0 != 0, got == v0))
	verif.Assert("concurrent-adds-keep-the-minimum", verif.And(isLower, isOne))
	verif.Assert("concurrent-get-sees-a-real-value", verif.Or(seen == v0, verif.Or(seen == x, seen == y)))
	verif.Assert("add-returns-a-value-not-above-its-sample", verif.And(rx <= x, ry <= y))
	verif.Assert("some-add-reports-the-change", verif.Implies(got != v0, verif.Or(fx, fy)))
	verif.Reach("end")
}
