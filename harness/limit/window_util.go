//go:build verif

package limit

import (
	"math"

	"github.com/platinummonkey/go-concurrency-limits/measurements"
	verif "github.com/platinummonkey/go-concurrency-limits/zz_verifrt"
)

// verifSymWindow returns a sample window in an arbitrary state reachable by folding samples:
// count >= 0, sum >= 0 (sum == 0 iff count == 0 is not required: rtt 0 samples), minRTT in [0, MaxInt64],
// maxInFlight >= 0; values bounded so that one more sample cannot overflow.
func verifSymWindow(prefix string) *measurements.ImmutableSampleWindow {
	minRTT := verif.Int64(prefix + ".minRTT")
	sum := verif.Int64(prefix + ".sum")
	maxIF := verif.Int(prefix + ".maxInFlight")
	count := verif.Int(prefix + ".count")
	drop := verif.Bool(prefix + ".didDrop")
	verif.Assume(count >= 0 && count < 1<<30 && sum >= 0 && sum < 1<<61 && maxIF >= 0 && maxIF < 1<<31)
	verif.Assume(minRTT >= 1 && (minRTT < 1<<61 || minRTT == math.MaxInt64))
	verif.Assume((count == 0) == (minRTT == math.MaxInt64))
	verif.Assume(count != 0 || sum == 0)
	return measurements.VerifWindow(-1, minRTT, sum, maxIF, count, drop)
}
