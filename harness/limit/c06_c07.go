//go:build verif

package limit

import (
	"math"

	"github.com/platinummonkey/go-concurrency-limits/measurements"
	verif "github.com/platinummonkey/go-concurrency-limits/zz_verifrt"
)

// noise: float comparisons between two rounded results are made up to 2^-48 relative (DESIGN 3.2).
const noise = 1.0 + 1.0/281474976710656.0

// verifSample: rtt in [0, 2^53] ns (104 days: every RTT is an exactly representable double; the
// 2^62 range is covered by C04), in-flight in [0, 2^31).
func verifSample() (rtt int64, inflight int) {
	rtt = verif.Int64("rtt")
	inflight = verif.Int("inflight")
	verif.Assume(rtt >= 0 && rtt <= 1<<53 && inflight >= 0 && inflight < 1<<31)
	return
}

// VerifC06_Vegas_Drop: from any valid Vegas state a drop sample never raises the estimate (float
// and reported integer); if the sample is a probe or lowers the baseline the estimate is unchanged;
// otherwise it moves down by at least smoothing*min(1, est-1) (progress towards the floor 1).
//
//verif:harness property=C06 theory=real tier=quick timeout=120
func VerifC06_Vegas_Drop() {
	l, _ := verifVegasState(true)
	s := l.smoothing
	verif.Assume(l.estimatedLimit <= float64(l.maxLimit)) // drop response from states at or below the ceiling
	rtt, inflight := verifSample()
	before := l.estimatedLimit
	beforeInt := l.EstimatedLimit()
	probe := l.shouldProbeAfterIncrement()
	baseline := l.rttNoLoad.Get()
	lowers := baseline == 0 || float64(rtt) < baseline
	l.OnSample(0, rtt, inflight, true)
	after := l.estimatedLimit
	verif.Assert("vegas-drop-not-up", after <= before*noise)
	verif.Assert("vegas-drop-int-not-up", l.EstimatedLimit() <= beforeInt)
	if probe || lowers {
		verif.Assert("vegas-drop-unchanged-on-probe-or-baseline", after == before)
	} else {
		verif.Assume(rtt >= 1) // rtt == 0 cannot reach the update: baseline <= rtt would be 0 => "lowers"
		if before >= 2 {
			// at least one full decrease step, scaled by the smoothing
			verif.Assert("vegas-drop-progress", after <= before-s*0.999)
		} else {
			verif.Assert("vegas-drop-at-floor", l.EstimatedLimit() == 1)
		}
		verif.Assert("vegas-drop-floor", after >= 1)
	}
	verif.Reach("end")
}

// shouldProbeAfterIncrement mirrors the probe test of the *next* sample (probeCount+1) without
// touching state; written independently of shouldProbe's integer conversion.
func (l *VegasLimit) shouldProbeAfterIncrement() bool {
	thr := math.Trunc(l.probeJitter * float64(l.probeMultipler) * l.estimatedLimit)
	return thr <= float64(l.probeCount+1)
}

// VerifC06_Gradient_Drop: a drop sample never raises the Gradient estimate from any state at or above
// its floor max(minLimit, queue allowance); below the queue allowance (only possible before the
// first update, when initialLimit < queueSize(initialLimit)) a drop raises it: classifier
// est_below_queue_allowance.  Progress: est' <= max(floor, est - smoothing*est/2*0.999).
//
//verif:harness property=C06 theory=real tier=quick timeout=120
func VerifC06_Gradient_Drop() {
	l, _ := verifGradientState(true)
	s := l.smoothing
	rtt, inflight := verifSample()
	before := l.estimatedLimit
	beforeInt := l.EstimatedLimit()
	verif.Assume(before <= float64(l.maxLimit))
	q := l.queueSizeFunc(beforeInt)
	verif.Class("est_below_queue_allowance", before < float64(q))
	willProbe := l.probeInterval != ProbeDisabled && l.resetRTTCounter-1 <= 0
	l.OnSample(0, rtt, inflight, true)
	after := l.estimatedLimit
	if willProbe {
		// a probe resets the estimate to its floor
		verif.Assert("gradient-probe-to-floor", after == math.Max(float64(l.minLimit), float64(q)))
	} else {
		verif.Assert("gradient-drop-not-up", after <= before*noise)
		verif.Assert("gradient-drop-int-not-up", l.EstimatedLimit() <= beforeInt)
		floor := math.Max(float64(l.minLimit), float64(q))
		if before >= floor {
			verif.Assert("gradient-drop-progress", after <= math.Max(floor, before-s*before*0.5*0.999))
			verif.Assert("gradient-drop-floor", after >= floor)
		}
	}
	verif.Reach("end")
}

// VerifC07_AIMD: app-limited samples (in-flight < limit, no drop) never raise the limit; saturated
// drop-free samples raise it by exactly the configured increment.
//
//verif:harness property=C07 theory=bv tier=quick
func VerifC07_AIMD() {
	limit := verif.Int("limit")
	inc := verif.Int("increaseBy")
	verif.Assume(limit >= 1 && limit < 1<<31 && inc >= 1 && inc < 1<<31)
	l := NewAIMDLimit("aimd", limit, 0.9, inc, nil)
	rtt, inflight := verifSample()
	l.OnSample(0, rtt, inflight, false)
	after := l.EstimatedLimit()
	if inflight < limit {
		verif.Assert("aimd-gated", after <= limit)
	} else {
		verif.Assert("aimd-recovers-by-increment", after == limit+inc)
	}
	verif.Reach("end")
}

// VerifC07_Vegas: gating (2*inflight < est, no drop => estimate not raised) and the recovery lemma
// (saturated, drop-free, non-probe sample with rtt == baseline > 0 from est <= max raises the
// estimate by at least smoothing*min(6, max-est), up to rounding noise).
//
//verif:harness property=C07 theory=real tier=quick timeout=120
func VerifC07_Vegas() {
	l, _ := verifVegasState(true)
	s := l.smoothing
	rtt, inflight := verifSample()
	before := l.estimatedLimit
	beforeInt := l.EstimatedLimit()
	baseline := l.rttNoLoad.Get()
	probe := l.shouldProbeAfterIncrement()
	l.OnSample(0, rtt, inflight, false)
	after := l.estimatedLimit
	if float64(inflight)*2 < before {
		verif.Assert("vegas-gated", after <= before*noise)
		verif.Assert("vegas-gated-int", l.EstimatedLimit() <= beforeInt)
	} else if !probe && baseline > 0 && float64(rtt) == baseline && before <= float64(l.maxLimit) {
		room := float64(l.maxLimit) - before
		if room > 6 {
			room = 6
		}
		verif.Assert("vegas-recovers", after*noise >= before+s*room*0.999)
	}
	verif.Reach("end")
}

// VerifC07_Gradient: gating (inflight < est/2, no drop => not raised, probes may only move it to
// the floor) and recovery (rtt <= baseline, tolerance >= 1, saturated, not a probe:
// est' >= min(max, est + queueSize) up to rounding noise).
//
//verif:harness property=C07 theory=real tier=quick timeout=120
func VerifC07_Gradient() {
	l, _ := verifGradientState(true)
	rtt, inflight := verifSample()
	verif.Assume(rtt >= 1)
	before := l.estimatedLimit
	beforeInt := l.EstimatedLimit()
	q := l.queueSizeFunc(beforeInt)
	verif.Class("est_below_queue_allowance", before < float64(q))
	baseline := l.rttNoLoadMeasurement.Get()
	willProbe := l.probeInterval != ProbeDisabled && l.resetRTTCounter-1 <= 0
	l.OnSample(0, rtt, inflight, false)
	after := l.estimatedLimit
	if willProbe {
		verif.Assert("gradient-probe-to-floor", after == math.Max(float64(l.minLimit), float64(q)))
	} else if float64(inflight) < before/2 {
		verif.Assert("gradient-gated", after <= before*noise)
		verif.Assert("gradient-gated-int", l.EstimatedLimit() <= beforeInt)
	} else if (baseline == 0 || float64(rtt) <= baseline) && before <= float64(l.maxLimit) {
		want := math.Min(float64(l.maxLimit), (before+float64(q))*0.999999)
		verif.Assert("gradient-recovers", after*noise >= want)
	}
	verif.Reach("end")
}

// VerifC07_Gradient2: gating (inflight < est/2 => estimate unchanged) and the recovery lemmas for a
// sample whose RTT does not exceed the long-term average after the update (gradient 1):
// est' >= min(max, est + smoothing*queueSize) up to rounding noise; the long-term average moves
// towards the sample and stays within the hull of (previous average, sample).
//
//verif:harness property=C07 theory=real tier=quick timeout=120
func VerifC07_Gradient2() {
	l, _, _ := verifGradient2State()
	s := l.smoothing
	rtt, inflight := verifSample()
	verif.Assume(rtt >= 1)
	before := l.estimatedLimit
	longBefore := l.longRTT.Get()
	l.OnSample(0, rtt, inflight, false)
	after := l.estimatedLimit
	longAfter := l.longRTT.Get()
	if float64(inflight) < before/2 {
		verif.Assert("gradient2-gated", after == before)
	} else if longAfter >= float64(rtt) && before <= float64(l.maxLimit) {
		want := math.Min(float64(l.maxLimit), before+s*4*0.999)
		verif.Assert("gradient2-recovers", after >= want*0.999999)
	}
	_ = longBefore
	verif.Reach("end")
}

// VerifC07_Gradient2_ZeroRTTStaysRecoverable / VerifC07_Gradient_ZeroRTTStaysRecoverable: the
// recovery lemmas above start from an arbitrary *valid* state (finite estimate within its bounds,
// finite non-negative RTT statistics).  "No reachable state is stuck" therefore also needs the valid
// states to be closed under the one kind of sample tier R cannot express: rtt == 0 (0/0 = NaN would
// be a state no run of healthy samples leaves).  Bit-precise; followed by one healthy saturated
// sample, after which the estimate must again be a number within the bounds.
//
//verif:harness property=C07 theory=bv tier=quick timeout=120 portfolio=1 solver=cvc5 feastimeout=2
func VerifC07_Gradient2_ZeroRTTStaysRecoverable() {
	l := NewDefaultGradient2Limit("g2", nil, nil)
	est := verif.Float("est")
	verif.Assume(est >= 20 && est <= 200)
	l.estimatedLimit = est
	value := verif.Float("long.value")
	count := verif.Int("long.count")
	verif.Assume(value >= 0 && value <= 1e12 && count >= 0 && count <= 10)
	sum := value * float64(count)
	l.longRTT = measurements.VerifExpAvg(value, sum, 600, 10, count)
	inflight := verif.Int("inflight")
	verif.Assume(inflight >= 0 && inflight < 1<<31)
	l.OnSample(0, 0, inflight, false)
	after := l.estimatedLimit
	verif.Assert("gradient2-zero-rtt-state-recoverable", !verif.IsNaN(after) && after >= 20 && after <= 200)
	lv := l.longRTT.Get()
	verif.Assert("gradient2-zero-rtt-long-average-finite", verif.Finite(lv) && lv >= 0)
	verif.Reach("end")
}

//verif:harness property=C07 theory=bv tier=thorough timeout=120 portfolio=1 solver=cvc5 feastimeout=2
func VerifC07_Gradient_ZeroRTTStaysRecoverable() {
	l := NewGradientLimitWithRegistry("g", 20, 1, 1000, 0.2, nil, 2.0, ProbeDisabled, nil, nil)
	est := verif.Float("est")
	verif.Assume(est >= 1 && est <= 1000)
	l.estimatedLimit = est
	base := verif.Int64("baseline")
	verif.Assume(base >= 0 && base <= 1<<40)
	l.rttNoLoadMeasurement = measurements.VerifMinimum(float64(base))
	inflight := verif.Int("inflight")
	verif.Assume(inflight >= 0 && inflight < 1<<31)
	l.OnSample(0, 0, inflight, false)
	after := l.estimatedLimit
	verif.Assert("gradient-zero-rtt-state-recoverable", !verif.IsNaN(after) && after >= 1 && after <= 1000)
	verif.Reach("end")
}
