//go:build verif

package limit

import (
	"github.com/platinummonkey/go-concurrency-limits/core"
	verif "github.com/platinummonkey/go-concurrency-limits/zz_verifrt"
)

type recSample struct {
	n    int
	last float64
}

func (s *recSample) AddSample(v float64, tags ...string) { s.n++; s.last = v }

type recRegistry struct {
	listeners map[string]*recSample
	kinds     map[string]string
	gauges    map[string]core.MetricSupplier
}

func newRecRegistry() *recRegistry {
	return &recRegistry{listeners: map[string]*recSample{}, kinds: map[string]string{}, gauges: map[string]core.MetricSupplier{}}
}
func (r *recRegistry) reg(kind, ID string) core.MetricSampleListener {
	if l, ok := r.listeners[ID]; ok {
		return l
	}
	l := &recSample{}
	r.listeners[ID] = l
	r.kinds[ID] = kind
	return l
}
func (r *recRegistry) RegisterDistribution(ID string, tags ...string) core.MetricSampleListener {
	return r.reg("distribution", ID)
}
func (r *recRegistry) RegisterTiming(ID string, tags ...string) core.MetricSampleListener {
	return r.reg("timing", ID)
}
func (r *recRegistry) RegisterCount(ID string, tags ...string) core.MetricSampleListener {
	return r.reg("count", ID)
}
func (r *recRegistry) RegisterGauge(ID string, supplier core.MetricSupplier, tags ...string) {
	r.gauges[ID] = supplier
}
func (r *recRegistry) Start() {}
func (r *recRegistry) Stop()  {}

// VerifC20_LimitSamples: every limit implementation, constructed with a real registry, emits for
// each processed sample its RTT (timing "<name>.rtt") and in-flight (distribution "<name>.inflight")
// exactly once and increments the drop counter ("<name>.dropped") iff the sample was a drop; the
// "<name>.limit" gauge reports EstimatedLimit().  With the empty registry nothing is sampled and
// nothing panics (nil sampler path).
//
//verif:harness property=C20 theory=real tier=quick
func VerifC20_LimitSamples() {
	reg := newRecRegistry()
	var mr core.MetricRegistry = reg
	empty := verif.Choice("registry", 2) == 1
	if empty {
		mr = core.EmptyMetricRegistryInstance
	}
	var l core.Limit
	switch verif.Choice("limit", 7) {
	case 0:
		l = NewAIMDLimit("n", 10, 0.9, 1, mr)
	case 1:
		l = NewDefaultVegasLimitWithLimit("n", 10, nil, mr)
	case 2:
		l = NewGradientLimitWithRegistry("n", 10, 1, 100, 0.2, nil, 2.0, ProbeDisabled, nil, mr)
	case 3:
		l = NewDefaultGradient2Limit("n", nil, mr)
	case 4:
		l = NewSettableLimit("n", 10, mr)
	case 5:
		l = NewFixedLimit("n", 10, mr)
	default:
		l = NewDefaultWindowedLimit("n", NewFixedLimit("inner", 10, nil), mr)
	}
	rtt, inflight := verif.Int64("rtt"), verif.Int("inflight")
	drop := verif.Bool("drop")
	verif.Assume(rtt >= 1 && rtt <= 1<<53 && inflight >= 0 && inflight < 1<<31)
	l.OnSample(0, rtt, inflight, drop)
	if empty {
		verif.Reach("empty-registry")
		return
	}
	r, i, d := reg.listeners["n.rtt"], reg.listeners["n.inflight"], reg.listeners["n.dropped"]
	verif.Assert("samplers-registered-with-kinds", r != nil && i != nil && d != nil && reg.kinds["n.rtt"] == "timing" && reg.kinds["n.inflight"] == "distribution" && reg.kinds["n.dropped"] == "count")
	verif.Assert("rtt-emitted-once", r.n == 1 && r.last == float64(rtt))
	verif.Assert("inflight-emitted-once", i.n == 1 && i.last == float64(inflight))
	verif.Assert("drop-counter-iff-drop", (d.n == 1) == drop && d.n <= 1 && (!drop || d.last == 1))
	g, ok := reg.gauges["n.limit"]()
	verif.Assert("limit-gauge-reports-estimate", ok && g == float64(l.EstimatedLimit()))
	verif.Reach("end")
}
