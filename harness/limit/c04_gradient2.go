//go:build verif

package limit

import (
	"github.com/platinummonkey/go-concurrency-limits/measurements"
	verif "github.com/platinummonkey/go-concurrency-limits/zz_verifrt"
)

var verifLongWindows = []int{600, 100, 10}

// verifGradient2State: Gradient2Limit from the real constructor (symbolic min/max/initial, constant
// queue size 4 (default), smoothing and long window from the constant lists), then an arbitrary
// state: minLimit <= est <= max(max, initial)*(1+2^-40); long-term average in an arbitrary state
// (value, sum >= 0, count <= warm-up).
func verifGradient2State() (l *Gradient2Limit, hi int, window int) {
	initial := verif.Int("initial")
	minL := verif.Int("min")
	maxC := verif.Int("max")
	verif.Assume(minL >= 1 && minL <= initial && minL <= maxC)
	verif.Assume(initial < 1<<31 && maxC < 1<<31 && maxC >= 4)
	smoothing := verifSmoothings[verif.Choice("smoothing", verif.Tiered(verifQuickSmooth, len(verifSmoothings)))]
	window = verifLongWindows[verif.Choice("longWindow", verif.Tiered(1, len(verifLongWindows)))]
	l, err := NewGradient2Limit("g2", initial, maxC, minL, nil, smoothing, window, nil, nil)
	verif.Assert("gradient2-constructor-ok", err == nil && l != nil)
	hi = maxC
	if initial > hi {
		hi = initial
	}
	est := verif.Float("est")
	verif.Assume(est >= float64(minL) && est <= float64(hi)*relax)
	l.estimatedLimit = est
	value := verif.Float("long.value")
	sum := verif.Float("long.sum")
	count := verif.Int("long.count")
	verif.Assume(value >= 0 && value <= 4.7e18 && sum >= 0 && sum <= 4.7e19 && count >= 0 && count <= 10)
	l.longRTT = measurements.VerifExpAvg(value, sum, window, 10, count)
	return l, hi, window
}

// VerifC04_Gradient2_Step: one OnSample (rtt >= 1; rtt == 0 is covered bit-precisely by
// VerifC04_Gradient2_ZeroRTT because longRTT/0 is not representable in tier R) keeps the estimate
// within [min, max(max,initial)].
//
//verif:harness property=C04 theory=real tier=quick timeout=120
func VerifC04_Gradient2_Step() {
	l, hi, _ := verifGradient2State()
	rtt := verif.Int64("rtt")
	inflight := verif.Int("inflight")
	verif.Assume(rtt >= 1 && rtt <= 1<<62 && inflight >= 0 && inflight < 1<<31)
	l.OnSample(0, rtt, inflight, verif.Bool("drop"))
	after := l.estimatedLimit
	verif.Assert("gradient2-est-ge-min", after >= float64(l.minLimit))
	verif.Assert("gradient2-est-le-max", after <= float64(hi)*relax)
	e := l.EstimatedLimit()
	verif.Assert("gradient2-int-ge-min", e >= l.minLimit && e >= 1)
	verif.Assert("gradient2-int-le-max", e <= hi)
	lv := l.longRTT.Get()
	verif.Assert("gradient2-long-nonneg", lv >= 0)
	verif.Reach("end")
}

// VerifC04_Gradient2_ZeroRTT: rtt == 0 samples (bit-precise): estimate must not become NaN.
//
//verif:harness property=C04 theory=bv tier=quick timeout=120 portfolio=1 solver=cvc5 feastimeout=2
func VerifC04_Gradient2_ZeroRTT() {
	l := NewDefaultGradient2Limit("g2", nil, nil)
	est := verif.Float("est")
	verif.Assume(est >= 20 && est <= 200)
	l.estimatedLimit = est
	value := verif.Float("long.value")
	count := verif.Int("long.count")
	verif.Assume(value >= 0 && value <= 1e12 && count >= 0 && count <= 10)
	sum := value * float64(count)
	l.longRTT = measurements.VerifExpAvg(value, sum, 600, 10, count)
	inflight := verif.Int("inflight")
	verif.Assume(inflight >= 0 && inflight < 1<<31)
	l.OnSample(0, 0, inflight, verif.Bool("drop"))
	after := l.estimatedLimit
	verif.Assert("gradient2-zero-rtt-not-nan", !verif.IsNaN(after))
	verif.Assert("gradient2-zero-rtt-in-range", after >= 20 && after <= 200)
	verif.Reach("end")
}

// VerifC04_Gradient2_ConstructorEstablishesBounds: the step harness above starts from a state with
// 1 <= min <= max; this one shows every construction establishes it.  All constructor arguments are
// arbitrary (non-positive ones stand for the documented defaults max 1000, min 4, initial 4; an
// out-of-range smoothing for 0.2): the constructor either rejects the configuration - exactly when
// the effective minimum exceeds the effective maximum - or returns a limit whose fields are the
// effective values, so that the clamp max(min, min(max, x)) in OnSample keeps x in [min, max].
//
//verif:harness property=C04 theory=real tier=quick
func VerifC04_Gradient2_ConstructorEstablishesBounds() {
	initial := verif.Int("initial")
	minL := verif.Int("min")
	maxC := verif.Int("max")
	verif.Assume(initial > -(1<<31) && initial < 1<<31 && minL > -(1<<31) && minL < 1<<31 && maxC > -(1<<31) && maxC < 1<<31)
	other := verif.Choice("smoothing+longWindow", 5)
	smoothing := []float64{0.2, 1.0, 0.0, -0.5, 1.5}[other]
	window := []int{600, 100, 0, -1, 10}[other]
	effMax, effMin, effInit := maxC, minL, initial
	if maxC <= 0 {
		effMax = 1000
	}
	if minL <= 0 {
		effMin = 4
	}
	if initial <= 0 {
		effInit = 4
	}
	l, err := NewGradient2Limit("g2", initial, maxC, minL, nil, smoothing, window, nil, nil)
	verif.Assert("gradient2-rejects-iff-min-exceeds-max", (err != nil) == (effMin > effMax))
	if err != nil {
		verif.Assert("gradient2-rejected-returns-nil", l == nil)
		verif.Reach("rejected")
		return
	}
	verif.Assert("gradient2-constructed-bounds-ordered", l.minLimit >= 1 && l.minLimit <= l.maxLimit)
	verif.Assert("gradient2-constructed-effective-values", l.minLimit == effMin && l.maxLimit == effMax && l.estimatedLimit == float64(effInit) && l.EstimatedLimit() == effInit)
	verif.Assert("gradient2-constructed-smoothing-in-range", l.smoothing >= 0 && l.smoothing <= 1)
	verif.Reach("constructed")
}
