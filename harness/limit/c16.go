//go:build verif

package limit

import (
	"github.com/platinummonkey/go-concurrency-limits/core"
	verif "github.com/platinummonkey/go-concurrency-limits/zz_verifrt"
)

// verifNotify registers one consumer, runs op1, registers a second consumer, runs op2 and checks
// for both consumers: an operation that changed EstimatedLimit() called every consumer registered
// before it, and the last value delivered equals EstimatedLimit() afterwards.
func verifNotify(tag string, l core.Limit, op1, op2 func()) {
	n1, last1 := 0, 0
	n2, last2 := 0, 0
	l.NotifyOnChange(func(v int) { n1++; last1 = v })
	e0 := l.EstimatedLimit()
	op1()
	e1 := l.EstimatedLimit()
	if e1 != e0 {
		verif.Assert(tag+"-notified-on-change", n1 >= 1)
	}
	if n1 > 0 {
		verif.Assert(tag+"-last-value-agrees", last1 == e1)
	}
	l.NotifyOnChange(func(v int) { n2++; last2 = v })
	before := n1
	op2()
	e2 := l.EstimatedLimit()
	if e2 != e1 {
		verif.Assert(tag+"-notified-on-change-both", n1 > before && n2 >= 1)
	}
	if n2 > 0 {
		verif.Assert(tag+"-last-value-agrees-late", last2 == e2 && last1 == e2)
	}
	verif.Reach(tag + "-end")
}

func verifTwoSamples(l core.Limit) (func(), func()) {
	r1, i1, d1 := verif.Int64("rtt1"), verif.Int("inflight1"), verif.Bool("drop1")
	r2, i2, d2 := verif.Int64("rtt2"), verif.Int("inflight2"), verif.Bool("drop2")
	verif.Assume(r1 >= 1 && r1 <= 1<<53 && r2 >= 1 && r2 <= 1<<53 && i1 >= 0 && i1 < 1<<31 && i2 >= 0 && i2 < 1<<31)
	return func() { l.OnSample(0, r1, i1, d1) }, func() { l.OnSample(0, r2, i2, d2) }
}

// VerifC16_AIMD
//
//verif:harness property=C16 theory=real tier=quick
func VerifC16_AIMD() {
	limit := verif.Int("limit")
	verif.Assume(limit >= 1 && limit < 1<<31)
	l := NewAIMDLimit("a", limit, 0.9, 1, nil)
	o1, o2 := verifTwoSamples(l)
	verifNotify("aimd", l, o1, o2)
}

// VerifC16_Vegas
//
//verif:harness property=C16 theory=real tier=quick nomono=1
func VerifC16_Vegas() {
	l, _ := verifVegasState(true)
	o1, o2 := verifTwoSamples(l)
	verifNotify("vegas", l, o1, o2)
}

// VerifC16_Gradient
//
//verif:harness property=C16 theory=real tier=quick nomono=1
func VerifC16_Gradient() {
	l, _ := verifGradientState(true)
	o1, o2 := verifTwoSamples(l)
	verifNotify("gradient", l, o1, o2)
}

// VerifC16_Gradient2
//
//verif:harness property=C16 theory=real tier=quick nomono=1
func VerifC16_Gradient2() {
	l, _, _ := verifGradient2State()
	o1, o2 := verifTwoSamples(l)
	verifNotify("gradient2", l, o1, o2)
}

// VerifC16_Settable: SetLimit notifies and agrees (values in int32 range: stated bound).
//
//verif:harness property=C16 theory=bv tier=quick
func VerifC16_Settable() {
	init := verif.Int("initial")
	a, b := verif.Int("set1"), verif.Int("set2")
	verif.Assume(init >= 0 && init < 1<<31 && a > -(1<<31) && a < 1<<31 && b > -(1<<31) && b < 1<<31)
	l := NewSettableLimit("s", init, nil)
	verif.Assert("settable-initial", l.EstimatedLimit() == init)
	verifNotify("settable", l, func() { l.SetLimit(a) }, func() { l.SetLimit(b) })
	verif.Assert("settable-reports-set", l.EstimatedLimit() == b)
}

// VerifC16_Fixed: a fixed limit never changes, whatever is sampled.
//
//verif:harness property=C16 theory=bv tier=quick
func VerifC16_Fixed() {
	init := verif.Int("initial")
	verif.Assume(init >= 0)
	l := NewFixedLimit("f", init, nil)
	o1, o2 := verifTwoSamples(l)
	verifNotify("fixed", l, o1, o2)
	verif.Assert("fixed-never-changes", l.EstimatedLimit() == init)
}

// VerifC16_Traced: the traced wrapper reports its delegate's estimate, forwards registrations and
// samples unchanged (delegate: a real AIMD limit).
//
//verif:harness property=C16 theory=real tier=quick
func VerifC16_Traced() {
	limit := verif.Int("limit")
	verif.Assume(limit >= 1 && limit < 1<<31)
	d := NewAIMDLimit("a", limit, 0.5, 2, nil)
	l := NewTracedLimit(d, NoopLimitLogger{})
	o1, o2 := verifTwoSamples(l)
	verifNotify("traced", l, o1, o2)
	verif.Assert("traced-reports-delegate", l.EstimatedLimit() == d.EstimatedLimit())
}

// VerifC16_Windowed: the windowed wrapper reports its delegate's estimate and consumers registered
// through it hear about every change the delegate makes (delegate: real AIMD; window state symbolic).
//
//verif:harness property=C16 theory=real tier=quick
func VerifC16_Windowed() {
	limit := verif.Int("limit")
	verif.Assume(limit >= 1 && limit < 1<<31)
	d := NewAIMDLimit("a", limit, 0.5, 2, nil)
	w, err := NewWindowedLimit("w", 100000000, 1000000000, 10, 0, d, nil)
	verif.Assert("windowed-constructed", err == nil)
	w.sample = verifSymWindow("win")
	nu := verif.Int64("nextUpdate")
	verif.Assume(nu >= 0 && nu < 1<<62)
	w.nextUpdateTime = nu
	r1, i1, d1 := verif.Int64("rtt1"), verif.Int("inflight1"), verif.Bool("drop1")
	r2, i2, d2 := verif.Int64("rtt2"), verif.Int("inflight2"), verif.Bool("drop2")
	s1, s2 := verif.Int64("start1"), verif.Int64("start2")
	verif.Assume(r1 >= 0 && r1 < 1<<53 && r2 >= 0 && r2 < 1<<53 && i1 >= 0 && i1 < 1<<31 && i2 >= 0 && i2 < 1<<31 && s1 >= 0 && s1 < 1<<60 && s2 >= 0 && s2 < 1<<60)
	verifNotify("windowed", w, func() { w.OnSample(s1, r1, i1, d1) }, func() { w.OnSample(s2, r2, i2, d2) })
	verif.Assert("windowed-reports-delegate", w.EstimatedLimit() == d.EstimatedLimit())
}
