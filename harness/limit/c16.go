//go:build verif

package limit

import (
	"github.com/platinummonkey/go-concurrency-limits/core"
	verif "github.com/platinummonkey/go-concurrency-limits/zz_verifrt"
)

// verifNotify checks one operation against two consumers that were registered earlier (at two
// different points of the history: the state builders keep the listener list when they impose an
// arbitrary state, so "registered at any point" is part of the symbolic pre-state): an operation that
// changed EstimatedLimit() called every registered consumer, and the last value delivered to each
// equals EstimatedLimit() afterwards.
type verifConsumers struct {
	n1, last1, n2, last2 int
}

func verifRegister(l core.Limit) *verifConsumers {
	c := &verifConsumers{}
	l.NotifyOnChange(func(v int) { c.n1++; c.last1 = v })
	l.NotifyOnChange(func(v int) { c.n2++; c.last2 = v })
	return c
}

func verifNotify(tag string, l core.Limit, c *verifConsumers, op func()) {
	e0 := l.EstimatedLimit()
	op()
	e1 := l.EstimatedLimit()
	if e1 != e0 {
		verif.Assert(tag+"-notified-on-change", c.n1 >= 1 && c.n2 >= 1)
	}
	if c.n1 > 0 || c.n2 > 0 {
		verif.Assert(tag+"-all-consumers-called", c.n1 > 0 && c.n2 > 0)
		verif.Assert(tag+"-last-value-agrees", c.last1 == e1 && c.last2 == e1)
	}
	verif.Reach(tag + "-end")
}

func verifOneSample(l core.Limit) func() {
	r1, i1, d1 := verif.Int64("rtt1"), verif.Int("inflight1"), verif.Bool("drop1")
	verif.Assume(r1 >= 1 && r1 <= 1<<53 && i1 >= 0 && i1 < 1<<31)
	return func() { l.OnSample(0, r1, i1, d1) }
}

// VerifC16_AIMD
//
//verif:harness property=C16 theory=real tier=quick
func VerifC16_AIMD() {
	limit := verif.Int("limit")
	verif.Assume(limit >= 1 && limit < 1<<31)
	l := NewAIMDLimit("a", limit, 0.9, 1, nil)
	verifNotify("aimd", l, verifRegister(l), verifOneSample(l))
}

// VerifC16_Vegas
//
//verif:harness property=C16 theory=real tier=quick nomono=1
func VerifC16_Vegas() {
	verifQuickSmooth = 2
	l, _ := verifVegasState(true)
	verifNotify("vegas", l, verifRegister(l), verifOneSample(l))
}

// VerifC16_Gradient
//
//verif:harness property=C16 theory=real tier=quick nomono=1
func VerifC16_Gradient() {
	verifQuickSmooth = 2
	l, _ := verifGradientState(true)
	verifNotify("gradient", l, verifRegister(l), verifOneSample(l))
}

// VerifC16_Gradient2
//
//verif:harness property=C16 theory=real tier=quick nomono=1
func VerifC16_Gradient2() {
	verifQuickSmooth = 2
	l, _, _ := verifGradient2State()
	verifNotify("gradient2", l, verifRegister(l), verifOneSample(l))
}

// VerifC16_Settable: SetLimit notifies and agrees (values in int32 range: stated bound).
//
//verif:harness property=C16 theory=bv tier=quick
func VerifC16_Settable() {
	init := verif.Int("initial")
	a, b := verif.Int("set1"), verif.Int("set2")
	verif.Assume(init >= 0 && init < 1<<31 && a > -(1<<31) && a < 1<<31 && b > -(1<<31) && b < 1<<31)
	l := NewSettableLimit("s", init, nil)
	verif.Assert("settable-initial", l.EstimatedLimit() == init)
	c := verifRegister(l)
	verifNotify("settable", l, c, func() { l.SetLimit(a) })
	verif.Assert("settable-reports-set", l.EstimatedLimit() == a)
	l.SetLimit(b)
	verif.Assert("settable-second-set", l.EstimatedLimit() == b && c.last1 == b && c.last2 == b)
}

// VerifC16_Fixed: a fixed limit never changes, whatever is sampled.
//
//verif:harness property=C16 theory=bv tier=quick
func VerifC16_Fixed() {
	init := verif.Int("initial")
	verif.Assume(init >= 0)
	l := NewFixedLimit("f", init, nil)
	verifNotify("fixed", l, verifRegister(l), verifOneSample(l))
	verif.Assert("fixed-never-changes", l.EstimatedLimit() == init)
}

// VerifC16_Traced: the traced wrapper reports its delegate's estimate, forwards registrations and
// samples unchanged (delegate: a real AIMD limit).
//
//verif:harness property=C16 theory=real tier=quick
func VerifC16_Traced() {
	limit := verif.Int("limit")
	verif.Assume(limit >= 1 && limit < 1<<31)
	d := NewAIMDLimit("a", limit, 0.5, 2, nil)
	l := NewTracedLimit(d, NoopLimitLogger{})
	verifNotify("traced", l, verifRegister(l), verifOneSample(l))
	verif.Assert("traced-reports-delegate", l.EstimatedLimit() == d.EstimatedLimit())
}

// VerifC16_Windowed: the windowed wrapper reports its delegate's estimate and consumers registered
// through it hear about every change the delegate makes (delegate: real AIMD; window state symbolic).
//
//verif:harness property=C16 theory=bv tier=quick solver=cvc5 feastimeout=2 portfolio=1
func VerifC16_Windowed() {
	limit := verif.Int("limit")
	verif.Assume(limit >= 1 && limit < 1<<31)
	d := NewAIMDLimit("a", limit, 0.5, 2, nil)
	w, err := NewWindowedLimit("w", 100000000, 1000000000, 10, 0, d, nil)
	verif.Assert("windowed-constructed", err == nil)
	w.sample = verifSymWindow("win")
	nu := verif.Int64("nextUpdate")
	verif.Assume(nu >= 0 && nu < 1<<62)
	w.nextUpdateTime = nu
	r1, i1, d1 := verif.Int64("rtt1"), verif.Int("inflight1"), verif.Bool("drop1")
	s1 := verif.Int64("start1")
	verif.Assume(r1 >= 0 && r1 < 1<<53 && i1 >= 0 && i1 < 1<<31 && s1 >= 0 && s1 < 1<<60)
	verifNotify("windowed", w, verifRegister(w), func() { w.OnSample(s1, r1, i1, d1) })
	verif.Assert("windowed-reports-delegate", w.EstimatedLimit() == d.EstimatedLimit())
}

// VerifC16_Wrappers_DelegateChangedDirectly: a consumer registered THROUGH the windowed / traced
// wrapper hears about every change of the delegate's estimate, also those that do not pass through
// the wrapper: an explicit SetLimit on a settable delegate, or a sample fed to a shared (AIMD)
// delegate directly.  The wrapper keeps reporting exactly the delegate's estimate.
//
//verif:harness property=C16 theory=real tier=quick
func VerifC16_Wrappers_DelegateChangedDirectly() {
	limit := verif.Int("limit")
	newLimit := verif.Int("newLimit")
	verif.Assume(limit >= 1 && newLimit >= 1 && limit < 1<<31 && newLimit < 1<<31)
	wrapper := verif.Choice("wrapper", 2)
	direct := verif.Choice("change", 2)
	var delegate core.Limit
	var op func()
	if direct == 0 {
		s := NewSettableLimit("s", limit, nil)
		delegate = s
		op = func() { s.SetLimit(newLimit) }
	} else {
		a := NewAIMDLimit("a", limit, 0.5, 2, nil)
		delegate = a
		i1, d1 := verif.Int("inflight1"), verif.Bool("drop1")
		verif.Assume(i1 >= 0 && i1 < 1<<31)
		op = func() { a.OnSample(0, 1000, i1, d1) }
	}
	var l core.Limit
	if wrapper == 0 {
		w, err := NewWindowedLimit("w", 100000000, 1000000000, 10, 0, delegate, nil)
		verif.Assert("wrapper-constructed", err == nil)
		l = w
	} else {
		l = NewTracedLimit(delegate, NoopLimitLogger{})
	}
	verifNotify("wrapped-delegate", l, verifRegister(l), op)
	verif.Assert("wrapper-reports-delegate", l.EstimatedLimit() == delegate.EstimatedLimit())
}
