//go:build verif

package limit

import (
	"github.com/platinummonkey/go-concurrency-limits/core"
	verif "github.com/platinummonkey/go-concurrency-limits/zz_verifrt"
)

// VerifC04_AIMD_Step: any sample keeps the AIMD limit a finite integer >= 1 and never panics.
// (AIMD has no configured maximum: the claim is the lower bound and exactness of the two rules.)
// Bounds: limit, increaseBy < 2^31; back-off from the constant list (symbolic ratio: see C06).
//
//verif:harness property=C04 theory=bv tier=quick timeout=120 portfolio=1 solver=cvc5 feastimeout=2
func VerifC04_AIMD_Step() {
	limit := verif.Int("limit")
	inc := verif.Int("increaseBy")
	verif.Assume(limit >= 1 && limit < 1<<31 && inc < 1<<31)
	ratios := []float64{0.9, 0.1, 1.0, 0.5, 0.0, 0.99, 0.3}
	ratio := ratios[verif.Choice("ratio", verif.Tiered(5, len(ratios)))]
	l := NewAIMDLimit("aimd", limit, ratio, inc, nil)
	rtt := verif.Int64("rtt")
	inflight := verif.Int("inflight")
	verif.Assume(rtt >= 0 && inflight >= 0 && inflight < 1<<31)
	drop := verif.Bool("drop")
	l.OnSample(0, rtt, inflight, drop)
	after := l.EstimatedLimit()
	verif.Assert("aimd-ge-1", after >= 1)
	if !drop {
		if inflight >= limit {
			if inc <= 0 {
				verif.Assert("aimd-increase-default", after == limit+1)
			} else {
				verif.Assert("aimd-increase", after == limit+inc)
			}
		} else {
			verif.Assert("aimd-unchanged", after == limit)
		}
	}
	verif.Reach("end")
}

// recLimit is a recording core.Limit double.
type recLimit struct {
	est       int
	samples   int
	start     int64
	rtt       int64
	inflight  int
	drop      bool
	consumers []core.LimitChangeListener
}

func (r *recLimit) EstimatedLimit() int { return r.est }
func (r *recLimit) NotifyOnChange(c core.LimitChangeListener) {
	r.consumers = append(r.consumers, c)
}
func (r *recLimit) OnSample(start int64, rtt int64, inflight int, drop bool) {
	r.samples++
	r.start, r.rtt, r.inflight, r.drop = start, rtt, inflight, drop
}

// VerifC04_Traced: TracedLimit forwards every sample unchanged (including rtt == 0) and reports the
// delegate's estimate; no run-time check fails for any sample.
//
//verif:harness property=C04 theory=bv tier=quick
func VerifC04_Traced() {
	d := &recLimit{est: verif.Int("est")}
	tl := NewTracedLimit(d, BuiltinLimitLogger{})
	start, rtt, inflight, drop := verif.Int64("start"), verif.Int64("rtt"), verif.Int("inflight"), verif.Bool("drop")
	verif.Assume(rtt >= 0 && inflight >= 0)
	tl.OnSample(start, rtt, inflight, drop)
	verif.Assert("traced-forwards-once", d.samples == 1)
	verif.Assert("traced-forwards-unchanged", d.start == start && d.rtt == rtt && d.inflight == inflight && d.drop == drop)
	verif.Assert("traced-estimate", tl.EstimatedLimit() == d.est)
	verif.Reach("end")
}

// VerifC04_Windowed_Forward: what a WindowedLimit can hand to its delegate: rtt >= 0 (0 for a window
// without any RTT), in-flight >= 0; and no run-time check fails in the wrapper for any sample.
// The window state is arbitrary (built from symbolic fields); thresholds symbolic.
//
//verif:harness property=C04 theory=bv tier=quick
func VerifC04_Windowed_Forward() {
	d := &recLimit{est: verif.Int("est")}
	minW, maxW := verif.Int64("minWindow"), verif.Int64("maxWindow")
	ws := verif.Int32("windowSize")
	thr := verif.Int64("minRTTThreshold")
	verif.Assume(minW >= 100000000 && maxW >= 100000000 && minW < 1<<60 && maxW < 1<<60 && ws >= 10 && thr >= 0 && thr < 1<<62)
	w, err := NewWindowedLimit("w", minW, maxW, ws, thr, d, nil)
	verif.Assert("windowed-constructed", err == nil && w != nil)
	w.sample = verifSymWindow("win")
	w.nextUpdateTime = verif.Int64("nextUpdate")
	verif.Assume(w.nextUpdateTime >= 0 && w.nextUpdateTime < 1<<62)
	start, rtt, inflight := verif.Int64("start"), verif.Int64("rtt"), verif.Int("inflight")
	verif.Assume(start >= 0 && start < 1<<61 && rtt >= 0 && rtt < 1<<61 && inflight >= 0 && inflight < 1<<31)
	w.OnSample(start, rtt, inflight, verif.Bool("drop"))
	if d.samples > 0 {
		verif.Assert("windowed-forwards-once", d.samples == 1)
		verif.Assert("windowed-forwards-nonneg", d.rtt >= 0 && d.inflight >= 0)
	}
	verif.Assert("windowed-estimate", w.EstimatedLimit() == d.est)
	verif.Reach("end")
}
