//go:build verif

package limit

import (
	"github.com/platinummonkey/go-concurrency-limits/measurements"
	verif "github.com/platinummonkey/go-concurrency-limits/zz_verifrt"
)

var verifTolerances = []float64{2.0, 1.0, 1.5}

// verifGradientState: GradientLimit from the real constructor (symbolic min/max/initial/probe
// interval, smoothing and tolerance from the stated constant lists, default sqrt queue function),
// then an arbitrary state under the invariant
//
//	minLimit <= est <= max(maxLimit, initial)*(1+2^-40), 1 <= counter < 2*interval (if enabled), baseline >= 0.
func verifGradientState(smallRTT bool) (l *GradientLimit, hi int) {
	initial := verif.Int("initial")
	minL := verif.Int("min")
	maxC := verif.Int("max")
	verif.Assume(minL >= 1 && minL <= initial && minL <= maxC)
	verif.Assume(initial < 1<<31 && maxC < 1<<31)
	verif.Assume(maxC >= 4) // queue allowance (default: max(4, sqrt(limit))) <= max
	smoothing := verifSmoothings[verif.Choice("smoothing", verif.Tiered(verifQuickSmooth, len(verifSmoothings)))]
	tol := verifTolerances[verif.Choice("tolerance", verif.Tiered(1, len(verifTolerances)))]
	interval := ProbeDisabled
	if verif.Choice("probing", 2) == 1 {
		interval = verif.Int("probeInterval")
		verif.Assume(interval >= 1 && interval < 1<<30)
	}
	l = NewGradientLimitWithRegistry("g", initial, minL, maxC, smoothing, nil, tol, interval, nil, nil)
	hi = maxC
	if initial > hi {
		hi = initial
	}
	est := verif.Float("est")
	verif.Assume(est >= float64(minL) && est <= float64(hi)*relax)
	l.estimatedLimit = est
	if interval != ProbeDisabled {
		c := verif.Int("counter")
		verif.Assume(c >= 1 && c < 2*interval)
		l.resetRTTCounter = c
	}
	base := verif.Int64("baseline")
	verif.Assume(base >= 0 && base <= 1<<62)
	verif.Assume(!smallRTT || base <= 1<<53)
	l.rttNoLoadMeasurement = measurements.VerifMinimum(float64(base))
	return l, hi
}

// VerifC04_Gradient_Step: one OnSample (rtt >= 0) from an arbitrary valid Gradient state keeps the
// estimate in [minLimit, max(maxLimit, initial)], finite, and no run-time check fails.
//
//verif:harness property=C04 theory=real tier=quick timeout=120
func VerifC04_Gradient_Step() {
	l, hi := verifGradientState(false)
	rtt := verif.Int64("rtt")
	inflight := verif.Int("inflight")
	verif.Assume(rtt >= 0 && rtt <= 1<<62 && inflight >= 0 && inflight < 1<<31)
	l.OnSample(0, rtt, inflight, verif.Bool("drop"))
	after := l.estimatedLimit
	verif.Assert("gradient-est-ge-min", after >= float64(l.minLimit))
	verif.Assert("gradient-est-le-max", after <= float64(hi)*relax)
	e := l.EstimatedLimit()
	verif.Assert("gradient-int-ge-min", e >= l.minLimit && e >= 1)
	verif.Assert("gradient-int-le-max", e <= hi)
	if l.probeInterval != ProbeDisabled {
		verif.Assert("gradient-counter-inv", l.resetRTTCounter >= 1 && l.resetRTTCounter < 2*l.probeInterval)
	}
	verif.Reach("end")
}

// VerifC04_Gradient_ZeroRTT: a sample with rtt == 0 (what WindowedLimit forwards for a drop-only
// window) from an arbitrary valid state; bit-precise FP so that NaN is visible.
//
//verif:harness property=C04 theory=bv tier=quick timeout=120 portfolio=1 solver=cvc5 feastimeout=2
func VerifC04_Gradient_ZeroRTT() {
	l := NewGradientLimitWithRegistry("g", 20, 1, 1000, 0.2, nil, 2.0, ProbeDisabled, nil, nil)
	est := verif.Float("est")
	verif.Assume(est >= 1 && est <= 1000)
	l.estimatedLimit = est
	base := verif.Int64("baseline")
	verif.Assume(base >= 0 && base <= 1<<40)
	l.rttNoLoadMeasurement = measurements.VerifMinimum(float64(base))
	inflight := verif.Int("inflight")
	verif.Assume(inflight >= 0 && inflight < 1<<31)
	l.OnSample(0, 0, inflight, verif.Bool("drop"))
	after := l.estimatedLimit
	verif.Assert("gradient-zero-rtt-not-nan", !verif.IsNaN(after))
	verif.Assert("gradient-zero-rtt-in-range", after >= 1 && after <= 1000)
	verif.Reach("end")
}
