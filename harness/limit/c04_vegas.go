//go:build verif

package limit

import (
	verif "github.com/platinummonkey/go-concurrency-limits/zz_verifrt"
)

// verifSmoothings: the smoothing constants covered (library defaults 1.0 / 0.2 plus edge values).
var verifSmoothings = []float64{1.0, 0.2, 0.9, 0.5, 0.1, 0.01}

// verifQuickSmooth: number of smoothing constants explored in the quick tier (harnesses with many
// paths lower it to 1 before building the state; the thorough tier always uses the whole list).
var verifQuickSmooth = 2

const relax = 1.0 + 1.0/1099511627776.0 // 1 + 2^-40: tier-R invariants are inductive only up to rounding noise

// verifVegasState builds a VegasLimit through the real constructor with a symbolic valid
// configuration and then imposes an arbitrary state satisfying the representation invariant
//
//	1 <= est <= max(maxLimit, initial)*(1+2^-40), jitter in [0.5,1), probeCount >= 0, baseline >= 0.
func verifVegasState(smallRTT bool) (l *VegasLimit, hi int) {
	initial := verif.Int("initial")
	maxC := verif.Int("max")
	smoothing := verifSmoothings[verif.Choice("smoothing", verif.Tiered(verifQuickSmooth, len(verifSmoothings)))]
	probeMult := verif.Int("probeMult")
	verif.Assume(initial >= 1 && initial < 1<<31 && maxC >= 1 && maxC < 1<<31)
	verif.Assume(smoothing > 0 && smoothing <= 1)
	verif.Assume(probeMult >= 1 && probeMult <= 1<<20)
	l = NewVegasLimitWithRegistry("v", initial, nil, maxC, smoothing, nil, nil, nil, nil, nil, probeMult, nil, nil)
	hi = maxC
	if initial > hi {
		hi = initial
	}
	est := verif.Float("est")
	verif.Assume(est >= 1 && est <= float64(hi)*relax)
	l.estimatedLimit = est
	jit := verif.Float("jitter")
	verif.Assume(jit >= 0.5 && jit < 1)
	l.probeJitter = jit
	pc := verif.Int64("probeCount")
	verif.Assume(pc >= 0 && pc < 1<<40)
	l.probeCount = pc
	base := verif.Int64("baseline")
	verif.Assume(base >= 0 && base <= 1<<62)
	verif.Assume(!smallRTT || base <= 1<<53) // exactly representable baselines for the C06/C07/C08 lemmas
	l.rttNoLoad.Add(float64(base))
	return l, hi
}

// VerifC04_Vegas_Step: one OnSample from an arbitrary valid Vegas state keeps the estimate
// finite, >= 1 and <= max(maxLimit, initial) (tier R: symbolic smoothing, max, sample).
//
//verif:harness property=C04 theory=real tier=quick timeout=120
func VerifC04_Vegas_Step() {
	l, hi := verifVegasState(false)
	s := l.smoothing
	// exactness lemma fl(fl(1-s)+s) >= 1 (proved bit-precisely by VerifLemma_OneMinusSPlusS)
	verif.Assume((1-s)+s >= 1)
	rtt := verif.Int64("rtt")
	inflight := verif.Int("inflight")
	verif.Assume(rtt >= 0 && rtt <= 1<<62 && inflight >= 0 && inflight < 1<<31)
	l.OnSample(0, rtt, inflight, verif.Bool("drop"))
	after := l.estimatedLimit
	verif.Assert("vegas-est-ge-1", after >= 1)
	verif.Assert("vegas-est-le-max", after <= float64(hi)*relax)
	e := l.EstimatedLimit()
	verif.Assert("vegas-int-ge-1", e >= 1)
	verif.Assert("vegas-int-le-max", e <= hi)
	verif.Reach("end")
}

// VerifC04_Vegas_CustomFunctions: Vegas built with CALLER-SUPPLIED alpha / beta / threshold /
// increase / decrease functions that return arbitrary finite values (a decrease function may return
// something below 1 or negative, an increase function something huge): the bounds of the estimate
// are the limiter's own clamp, not a property of the default functions - one OnSample keeps the
// estimate in [1, max(maxLimit, initial)].
//
//verif:harness property=C04 theory=real tier=quick timeout=120
func VerifC04_Vegas_CustomFunctions() {
	verifQuickSmooth = 1
	l, hi := verifVegasState(false)
	s := l.smoothing
	verif.Assume((1-s)+s >= 1)
	a, b, th := verif.Int("alpha"), verif.Int("beta"), verif.Int("threshold")
	verif.Assume(a >= 0 && a < 1<<31 && b >= 0 && b < 1<<31 && th >= 0 && th < 1<<31)
	inc, dec := verif.Float("increase"), verif.Float("decrease")
	verif.Assume(inc >= -1e18 && inc <= 1e18 && dec >= -1e18 && dec <= 1e18)
	l.alphaFunc = func(int) int { return a }
	l.betaFunc = func(int) int { return b }
	l.thresholdFunc = func(int) int { return th }
	l.increaseFunc = func(float64) float64 { return inc }
	l.decreaseFunc = func(float64) float64 { return dec }
	rtt := verif.Int64("rtt")
	inflight := verif.Int("inflight")
	verif.Assume(rtt >= 0 && rtt <= 1<<62 && inflight >= 0 && inflight < 1<<31)
	l.OnSample(0, rtt, inflight, verif.Bool("drop"))
	after := l.estimatedLimit
	verif.Assert("vegas-custom-est-ge-1", after >= 1)
	verif.Assert("vegas-custom-est-le-max", after <= float64(hi)*relax)
	e := l.EstimatedLimit()
	verif.Assert("vegas-custom-int-in-range", e >= 1 && e <= hi)
	verif.Reach("end")
}
