//go:build verif

package limit

import (
	"github.com/platinummonkey/go-concurrency-limits/measurements"
	verif "github.com/platinummonkey/go-concurrency-limits/zz_verifrt"
)

// Note on Vegas: when the estimate is above maxLimit (initialLimit > maxConcurrency, or by accumulated
// rounding) a *lower* RTT takes the "increase" branch, which is then clamped DOWN to maxLimit, while a
// higher RTT in the dead band leaves the estimate unchanged: classifier est_above_max (known finding).

// Relational harnesses: two copies of one symbolic state, samples identical except rtt_lo < rtt_hi
// (both at or above the baseline, neither a probe); the higher RTT must not give the higher estimate
// (floats up to 2^-48 relative rounding noise, reported integers compared on the noise-widened value).

func verifCopyVegas(l *VegasLimit) *VegasLimit {
	c := NewVegasLimitWithRegistry("v2", 1, nil, l.maxLimit, l.smoothing, nil, nil, nil, nil, nil, l.probeMultipler, nil, nil)
	c.estimatedLimit = l.estimatedLimit
	c.probeJitter = l.probeJitter
	c.probeCount = l.probeCount
	c.rttNoLoad = measurements.VerifMinimum(l.rttNoLoad.Get())
	return c
}

// verifC08Vegas: shared body; aboveMax selects the region of the state space.
func verifC08Vegas(aboveMax bool) {
	verifQuickSmooth = 1
	a, _ := verifVegasState(true)
	if aboveMax {
		verif.Assume(a.estimatedLimit > float64(a.maxLimit))
	} else {
		verif.Assume(a.estimatedLimit <= float64(a.maxLimit))
	}
	b := verifCopyVegas(a)
	base := a.rttNoLoad.Get()
	lo, hi := verif.Int64("rtt_lo"), verif.Int64("rtt_hi")
	inflight := verif.Int("inflight")
	drop := verif.Bool("drop")
	verif.Assume(lo >= 1 && lo < hi && hi <= 1<<53 && inflight >= 0 && inflight < 1<<31)
	verif.Assume(base > 0 && float64(lo) >= base) // neither sample lowers the baseline
	verif.Assume(!a.shouldProbeAfterIncrement())  // neither is a probe
	verif.Class("est_above_max", a.estimatedLimit > float64(a.maxLimit))
	a.OnSample(0, lo, inflight, drop)
	b.OnSample(0, hi, inflight, drop)
	verif.Assert("vegas-monotone-rtt", b.estimatedLimit <= a.estimatedLimit*noise)
	if !aboveMax {
		// the relational claim quantifies over the states of verifVegasState: they must be closed
		// under the samples of this harness (the excluded ones: VerifC08_Vegas_DomainClosed)
		verif.Assert("vegas-domain-closed", a.estimatedLimit >= 1)
		verif.Assert("vegas-domain-closed", b.estimatedLimit >= 1)
		verif.Assert("vegas-domain-closed", a.estimatedLimit <= float64(a.maxLimit)*relax)
		verif.Assert("vegas-domain-closed", b.estimatedLimit <= float64(a.maxLimit)*relax)
	}
	verif.Reach("end")
}

// VerifC08_Vegas: states with the estimate at or below maxLimit.
//
//verif:harness property=C08 theory=real tier=quick timeout=120
func VerifC08_Vegas() { verifC08Vegas(false) }

// VerifC08_Vegas_AboveMax: states with the estimate above maxLimit (initialLimit > maxConcurrency):
// monotonicity is violated there (known finding est_above_max).
//
//verif:harness property=C08 theory=real tier=quick timeout=30 claims=none
func VerifC08_Vegas_AboveMax() { verifC08Vegas(true) }

func verifCopyGradient(l *GradientLimit) *GradientLimit {
	c := NewGradientLimitWithRegistry("g2", 1, l.minLimit, l.maxLimit, l.smoothing, nil, l.rttTolerance, l.probeInterval, nil, nil)
	c.estimatedLimit = l.estimatedLimit
	c.resetRTTCounter = l.resetRTTCounter
	c.rttNoLoadMeasurement = measurements.VerifMinimum(l.rttNoLoadMeasurement.Get())
	return c
}

// VerifC08_Gradient
//
//verif:harness property=C08 theory=real tier=quick timeout=120
func VerifC08_Gradient() {
	// quick tier: smoothing 1.0 and the library default 0.2 (with 1.0 alone the smoothed and the raw
	// decrease coincide and a rewrite of the smoothing clause goes unnoticed)
	verifQuickSmooth = 2
	a, hiBound := verifGradientState(true)
	b := verifCopyGradient(a)
	base := a.rttNoLoadMeasurement.Get()
	lo, hi := verif.Int64("rtt_lo"), verif.Int64("rtt_hi")
	inflight := verif.Int("inflight")
	drop := verif.Bool("drop")
	verif.Assume(lo >= 1 && lo < hi && hi <= 1<<53 && inflight >= 0 && inflight < 1<<31)
	verif.Assume(base > 0 && float64(lo) >= base)
	verif.Assume(a.probeInterval == ProbeDisabled || a.resetRTTCounter-1 > 0)
	a.OnSample(0, lo, inflight, drop)
	b.OnSample(0, hi, inflight, drop)
	verif.Assert("gradient-monotone-rtt", b.estimatedLimit <= a.estimatedLimit*noise)
	// the relational claim quantifies over the states of verifGradientState: they must be closed
	// under the samples of this harness (the excluded ones: VerifC08_Gradient_DomainClosed)
	verif.Assert("gradient-domain-closed", a.estimatedLimit >= float64(a.minLimit))
	verif.Assert("gradient-domain-closed", b.estimatedLimit >= float64(a.minLimit))
	verif.Assert("gradient-domain-closed", a.estimatedLimit <= float64(hiBound)*relax)
	verif.Assert("gradient-domain-closed", b.estimatedLimit <= float64(hiBound)*relax)
	verif.Reach("end")
}

// VerifC08_Gradient_DomainClosed: "the same prior history" ranges over the states of
// verifGradientState; this harness shows that the samples the relational harness excludes (probes,
// samples that lower or set the baseline) lead back into that set, so the relational claim covers
// every state a history can produce (a probe that left the estimate below minLimit would make the
// next pair of samples non-monotone: seeded change C08b).
//
//verif:harness property=C08 theory=real tier=quick timeout=120
func VerifC08_Gradient_DomainClosed() {
	verifQuickSmooth = 1
	l, hi := verifGradientState(true)
	base := l.rttNoLoadMeasurement.Get()
	rtt := verif.Int64("rtt")
	inflight := verif.Int("inflight")
	verif.Assume(rtt >= 1 && rtt <= 1<<53 && inflight >= 0 && inflight < 1<<31)
	probe := l.probeInterval != ProbeDisabled && l.resetRTTCounter-1 <= 0
	verif.Assume(probe || base == 0 || float64(rtt) < base)
	l.OnSample(0, rtt, inflight, verif.Bool("drop"))
	verif.Assert("gradient-domain-closed-excluded", l.estimatedLimit >= float64(l.minLimit))
	verif.Assert("gradient-domain-closed-excluded", l.estimatedLimit <= float64(hi)*relax)
	if l.probeInterval != ProbeDisabled {
		verif.Assert("gradient-domain-counter", l.resetRTTCounter >= 1)
		verif.Assert("gradient-domain-counter", l.resetRTTCounter < 2*l.probeInterval)
	}
	verif.Reach("end")
}

// VerifC08_Vegas_DomainClosed: the same for Vegas (probe samples, samples that lower or set the baseline).
//
//verif:harness property=C08 theory=real tier=quick timeout=120
func VerifC08_Vegas_DomainClosed() {
	verifQuickSmooth = 1
	l, _ := verifVegasState(true)
	verif.Assume(l.estimatedLimit <= float64(l.maxLimit))
	base := l.rttNoLoad.Get()
	rtt := verif.Int64("rtt")
	inflight := verif.Int("inflight")
	verif.Assume(rtt >= 1 && rtt <= 1<<53 && inflight >= 0 && inflight < 1<<31)
	verif.Assume(l.shouldProbeAfterIncrement() || base == 0 || float64(rtt) < base)
	l.OnSample(0, rtt, inflight, verif.Bool("drop"))
	verif.Assert("vegas-domain-closed-excluded", l.estimatedLimit >= 1)
	verif.Assert("vegas-domain-closed-excluded", l.estimatedLimit <= float64(l.maxLimit)*relax)
	verif.Reach("end")
}

// VerifC08_Gradient2: same prior state (including the long-term average), final sample lo vs hi.
// BUG-HUNTING ONLY (claims=none): the ratio (updated average)/(sample) needs nonlinear reasoning
// through rounded operations that z3 4.8/5.1 answer `unknown` to, so nothing is claimed proved for
// Gradient2; the harness runs the counter-example search (stage-1 models + concretisation of the
// integer inputs, every candidate confirmed by exact concrete re-execution) under a short time-out
// and reports only confirmed violations.
//
//verif:harness property=C08 theory=real tier=quick claims=none timeout=10
func VerifC08_Gradient2() {
	verifQuickSmooth = 1
	a, _, window := verifGradient2State()
	v, s, c := measurements.VerifExpAvgState(a.longRTT.(*measurements.ExponentialAverageMeasurement))
	b, _ := NewGradient2Limit("g2b", 1, a.maxLimit, a.minLimit, nil, a.smoothing, window, nil, nil)
	b.estimatedLimit = a.estimatedLimit
	b.longRTT = measurements.VerifExpAvg(v, s, window, 10, c)
	lo, hi := verif.Int64("rtt_lo"), verif.Int64("rtt_hi")
	inflight := verif.Int("inflight")
	drop := verif.Bool("drop")
	verif.Assume(lo >= 1 && lo < hi && hi <= 1<<53 && inflight >= 0 && inflight < 1<<31)
	// the state is one a history of samples can produce: during warm-up value == sum/count
	verif.Assume(c == 0 || v > 0)
	// algebraic lemma (proved by VerifC08_Lemma_Gradient2Ratio for all inputs in these ranges):
	// the ratio updated-long-term-average / sample is non-increasing in the sample
	if c >= 10 {
		f := 2.0 / float64(window+1)
		la := v*(1-f) + float64(lo)*f
		lb := v*(1-f) + float64(hi)*f
		verif.Assume(lb/float64(hi) <= la/float64(lo)*noise)
		verif.Assume(lb >= la)
	} else {
		n := float64(c + 1)
		la := (s + float64(lo)) / n
		lb := (s + float64(hi)) / n
		verif.Assume(lb/float64(hi) <= la/float64(lo)*noise)
		verif.Assume(lb >= la)
	}
	a.OnSample(0, lo, inflight, drop)
	b.OnSample(0, hi, inflight, drop)
	verif.Assert("gradient2-monotone-rtt", b.estimatedLimit <= a.estimatedLimit*noise)
	verif.Reach("end")
}

// VerifC08_Lemma_Gradient2Ratio: for every long-term average state and rtt_lo < rtt_hi the ratio
// (updated average)/(sample) does not increase with the sample (steady state and warm-up).  Pure
// real arithmetic with rounding; assumed by VerifC08_Gradient2.  NOT REGISTERED (tier=off): unknown at 120 s.
//
//verif:harness property=C08 theory=real tier=off timeout=120
func VerifC08_Lemma_Gradient2Ratio() {
	window := verifLongWindows[verif.Choice("longWindow", verif.Tiered(1, len(verifLongWindows)))]
	v, s := verif.Float("long.value"), verif.Float("long.sum")
	c := verif.Int("long.count")
	lo, hi := verif.Int64("rtt_lo"), verif.Int64("rtt_hi")
	verif.Assume(v >= 0 && v <= 4.7e18 && s >= 0 && s <= 4.7e19 && c >= 0 && c <= 10)
	verif.Assume(lo >= 1 && lo < hi && hi <= 1<<53)
	if c >= 10 {
		f := 2.0 / float64(window+1)
		la := v*(1-f) + float64(lo)*f
		lb := v*(1-f) + float64(hi)*f
		verif.Assert("g2-ratio-monotone-steady", lb/float64(hi) <= la/float64(lo)*noise)
		verif.Assert("g2-avg-monotone-steady", lb >= la)
	} else {
		n := float64(c + 1)
		la := (s + float64(lo)) / n
		lb := (s + float64(hi)) / n
		verif.Assert("g2-ratio-monotone-warmup", lb/float64(hi) <= la/float64(lo)*noise)
		verif.Assert("g2-avg-monotone-warmup", lb >= la)
	}
	verif.Reach("end")
}

// VerifC08_Gradient2_Grid: Gradient2 from a grid of concrete prior states (estimate, long-term
// average value / warm-up count) with the two final RTTs, the in-flight count and the drop flag
// symbolic: with the state concrete the update is linear in everything but the single quotient
// (updated average)/(sample).  Measured: 534 of 544 obligations are decided (unsat) for the quick
// grid, 10 (the paths with the gradient strictly inside (0.5, 1)) stay unknown - so this harness is
// bug-hunting only as well (claims=none, thorough tier): its undecided obligations are listed in the
// evidence.
//
//verif:harness property=C08 theory=real tier=thorough timeout=60 claims=none
func VerifC08_Gradient2_Grid() {
	ests := []float64{20, 57.5, 200}
	vals := []float64{1e6, 5e7, 40}
	cnts := []int{10, 3, 0}
	est := ests[verif.Choice("est", verif.Tiered(2, len(ests)))]
	val := vals[verif.Choice("longValue", verif.Tiered(2, len(vals)))]
	cnt := cnts[verif.Choice("longCount", verif.Tiered(2, len(cnts)))]
	mk := func() *Gradient2Limit {
		l, _ := NewGradient2Limit("g2", 20, 200, 20, nil, 0.2, 600, nil, nil)
		l.estimatedLimit = est
		l.longRTT = measurements.VerifExpAvg(val, val*float64(cnt), 600, 10, cnt)
		return l
	}
	a, b := mk(), mk()
	lo, hi := verif.Int64("rtt_lo"), verif.Int64("rtt_hi")
	inflight := verif.Int("inflight")
	drop := verif.Bool("drop")
	verif.Assume(lo >= 1 && lo < hi && hi <= 1<<40 && inflight >= 0 && inflight < 1<<31)
	a.OnSample(0, lo, inflight, drop)
	b.OnSample(0, hi, inflight, drop)
	verif.Assert("gradient2-grid-monotone-rtt", b.estimatedLimit <= a.estimatedLimit*noise)
	verif.Reach("end")
}
