//go:build verif

package limit

import (
	verif "github.com/platinummonkey/go-concurrency-limits/zz_verifrt"
)

// State-imposing helpers for harnesses outside the package (add-only, verif-tagged): they put an
// instance built by the real constructor into an arbitrary state so that state-dependent paths
// (window roll-over, probes, warm-up) are reached by the generated C17 race harnesses.

// VerifSymbolicWindowed: arbitrary sample window and next update time.
func VerifSymbolicWindowed(l *WindowedLimit) {
	l.sample = verifSymWindow("win")
	nu := verif.Int64("nextUpdate")
	verif.Assume(nu >= 0 && nu < 1<<61)
	l.nextUpdateTime = nu
}

// VerifSymbolicVegas: arbitrary probe counter and baseline state.
func VerifSymbolicVegas(l *VegasLimit) {
	pc := verif.Int64("probeCount")
	verif.Assume(pc >= 0 && pc < 1<<40)
	l.probeCount = pc
	base := verif.Int64("baseline")
	verif.Assume(base >= 0 && base <= 1<<53)
	l.rttNoLoad.Add(float64(base))
}

// VerifSymbolicGradient: probing enabled with an arbitrary countdown.
func VerifSymbolicGradient(l *GradientLimit) {
	c := verif.Int("counter")
	verif.Assume(c >= 1 && c < 2000)
	l.probeInterval = 1000
	l.resetRTTCounter = c
}
