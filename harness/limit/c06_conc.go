//go:build verif

package limit

import (
	verif "github.com/platinummonkey/go-concurrency-limits/zz_verifrt"
)

// Concurrent samples (predictive atomicity analysis, engine option atomic=only): the loss response of
// C06 ("a drop never raises the estimate") is stated per sample; with samples arriving from several
// goroutines it holds only if each OnSample is one atomic read-modify-write of the estimate.  Two
// threads feed one sample each to a shared instance in an arbitrary state; for every write of a state
// variable whose value was computed from an earlier read of the same variable outside the write's
// critical section, the solver is asked for a schedule in which the other thread's write falls in
// between (a lost update: the drop's new estimate is then computed from a stale estimate, e.g. a
// queue allowance taken from a limit that has since been lowered).

func verifTwoSamples(l interface {
	OnSample(startTime int64, rtt int64, inFlight int, didDrop bool)
}) {
	r1, i1, d1 := verif.Int64("rtt1"), verif.Int("inflight1"), verif.Bool("drop1")
	r2, i2, d2 := verif.Int64("rtt2"), verif.Int("inflight2"), verif.Bool("drop2")
	verif.Assume(r1 >= 1 && r1 <= 1<<53 && i1 >= 0 && i1 < 1<<31 && r2 >= 1 && r2 <= 1<<53 && i2 >= 0 && i2 < 1<<31)
	verif.Spawn("t1", func() { l.OnSample(0, r1, i1, d1) })
	verif.Spawn("t2", func() { l.OnSample(0, r2, i2, d2) })
	verif.Parallel()
	verif.Reach("end")
}

// VerifC06_Gradient_ConcurrentSamplesAtomic
//
//verif:harness property=C06 theory=real tier=quick race=1 atomic=only maxpasses=4 unwind=3 unwindcut=1 clock=free timeout=20
func VerifC06_Gradient_ConcurrentSamplesAtomic() {
	l := NewGradientLimitWithRegistry("g", 50, 1, 1000, 0.2, nil, 2.0, 1000, nil, nil)
	VerifSymbolicGradient(l)
	verifTwoSamples(l)
}

// VerifC06_Vegas_ConcurrentSamplesAtomic
//
//verif:harness property=C06 theory=real tier=thorough race=1 atomic=only maxpasses=4 unwind=3 unwindcut=1 clock=free timeout=20
func VerifC06_Vegas_ConcurrentSamplesAtomic() {
	l := NewDefaultVegasLimitWithLimit("v", 50, nil, nil)
	VerifSymbolicVegas(l)
	verifTwoSamples(l)
}

// VerifC06_AIMD_ConcurrentSamplesAtomic
//
//verif:harness property=C06 theory=real tier=quick race=1 atomic=only maxpasses=4 unwind=3 unwindcut=1 clock=free timeout=20
func VerifC06_AIMD_ConcurrentSamplesAtomic() {
	l := NewAIMDLimit("a", 50, 0.9, 1, nil)
	verifTwoSamples(l)
}
