//go:build verif

package limit

import (
	"math"

	verif "github.com/platinummonkey/go-concurrency-limits/zz_verifrt"
)

// VerifC06_AIMD_Drop: from any limit >= 1 and any back-off ratio in (0,1], a drop sample moves
// AIMD exactly to max(1, min(limit-1, floor(limit*ratio))) and never up.
// Bounds: limit < 2^31; rtt, in-flight arbitrary.  One symbolic product -> bit-precise FP.
//
//verif:harness property=C06 theory=bv tier=quick timeout=120 portfolio=1 solver=cvc5
func VerifC06_AIMD_Drop() {
	limit := verif.Int("limit")
	ratio := verif.Float("ratio")
	inc := verif.Int("increaseBy")
	verif.Assume(limit >= 1 && limit < 1<<31)
	verif.Assume(ratio > 0 && ratio <= 1)
	l := NewAIMDLimit("aimd", limit, ratio, inc, nil)
	before := l.EstimatedLimit()
	verif.Assert("constructed-with-initial", before == limit)
	l.OnSample(verif.Int64("start"), verif.Int64("rtt"), verif.Int("inflight"), true)
	after := l.EstimatedLimit()
	want := int(math.Floor(float64(before) * ratio))
	if want > before-1 {
		want = before - 1
	}
	if want < 1 {
		want = 1
	}
	verif.Assert("aimd-drop-exact", after == want)
	verif.Assert("aimd-drop-not-up", after <= before)
	verif.Reach("end")
}
