//go:build verif

package limit

import (
	"math"

	"github.com/platinummonkey/go-concurrency-limits/measurements"
	verif "github.com/platinummonkey/go-concurrency-limits/zz_verifrt"
)

// VerifC09_Windowed: one sample on a WindowedLimit in an arbitrary window state.  Samples faster
// than the minimum-RTT threshold leave no trace; otherwise the window becomes the fold of the old
// window and this sample; the delegate is updated iff the window period has elapsed and the
// (implementation's) readiness rule holds, at most once, with exactly (mean RTT of the successful
// samples, max in-flight, "some sample of the window was a drop"); afterwards the window is empty
// and the next period starts at end + clamp(2*minRTT, minWindow, maxWindow).
//
//verif:harness property=C09 theory=bv tier=quick
func VerifC09_Windowed() {
	d := &recLimit{est: verif.Int("est")}
	minW, maxW := verif.Int64("minWindow"), verif.Int64("maxWindow")
	ws := verif.Int32("windowSize")
	thr := verif.Int64("minRTTThreshold")
	verif.Assume(minW >= 100000000 && maxW >= 100000000 && minW < 1<<59 && maxW < 1<<59 && ws >= 10 && thr >= 0 && thr < 1<<60)
	w, err := NewWindowedLimit("w", minW, maxW, ws, thr, d, nil)
	verif.Assert("windowed-constructed", err == nil && w != nil)
	w.sample = verifSymWindow("win")
	nu := verif.Int64("nextUpdate")
	verif.Assume(nu >= 0 && nu < 1<<61)
	w.nextUpdateTime = nu
	_, oMin, oSum, oMax, oCnt, oDrop := measurements.VerifWindowFields(w.sample)
	start, rtt, inflight := verif.Int64("start"), verif.Int64("rtt"), verif.Int("inflight")
	drop := verif.Bool("drop")
	verif.Assume(start >= 0 && start < 1<<60 && rtt >= 0 && rtt < 1<<60 && inflight >= 0 && inflight < 1<<31)
	w.OnSample(start, rtt, inflight, drop)
	_, nMin, nSum, nMax, nCnt, nDrop := measurements.VerifWindowFields(w.sample)
	if rtt < thr {
		verif.Assert("windowed-below-threshold-no-trace", nMin == oMin && nSum == oSum && nMax == oMax && nCnt == oCnt && nDrop == oDrop && d.samples == 0 && w.nextUpdateTime == nu)
		verif.Reach("below-threshold")
		return
	}
	fMin, fSum, fMax, fCnt, fDrop := oMin, oSum, oMax, oCnt, oDrop
	if drop {
		fDrop = true
	} else {
		if rtt < fMin {
			fMin = rtt
		}
		fSum += rtt
		fCnt++
	}
	if inflight > fMax {
		fMax = inflight
	}
	end := start + rtt
	due := end > nu && int32(inflight) > ws
	verif.Assert("windowed-update-at-most-once", d.samples <= 1)
	verif.Assert("windowed-update-iff-due", (d.samples == 1) == due)
	if d.samples == 1 {
		avg := int64(0)
		if fCnt > 0 {
			avg = fSum / int64(fCnt)
		}
		verif.Assert("windowed-forwards-mean-and-max", d.rtt == avg && d.inflight == fMax && d.start == start)
		verif.Assert("windowed-forwards-window-drop-flag", d.drop == fDrop)
		verif.Assert("windowed-resets-window", nCnt == 0 && nMin == math.MaxInt64 && nSum == 0 && nMax == 0 && !nDrop)
		p := 2 * fMin
		if fMin > math.MaxInt64/2 {
			p = minW // an empty minimum (MaxInt64) cannot shorten the period below the minimum window
		}
		if p < minW {
			p = minW
		}
		if p > maxW {
			p = maxW
		}
		verif.Assert("windowed-next-period", w.nextUpdateTime == end+p)
		verif.Reach("updated")
	} else {
		verif.Assert("windowed-keeps-fold", nMin == fMin && nSum == fSum && nMax == fMax && nCnt == fCnt && nDrop == fDrop && w.nextUpdateTime == nu)
		verif.Reach("not-updated")
	}
}
