//go:build verif

package limit

import (
	verif "github.com/platinummonkey/go-concurrency-limits/zz_verifrt"
)

// VerifC16_Conc_LastDeliveredAgrees (event-order): two goroutines feed one growth sample each to a
// shared AIMD limit (directly, or one of them through a traced wrapper) with a recording consumer
// registered: under every interleaving the last value delivered to the consumer equals what
// EstimatedLimit reports at quiescence, and the consumer was called once per change (assigning the
// estimate and notifying are one atomic step: a later notification cannot be overtaken).
//
//verif:harness property=C16 theory=bv tier=quick maxpaths=20000 clock=frozen
func VerifC16_Conc_LastDeliveredAgrees() {
	limit := 1 + verif.Choice("limit", 3)
	a := NewAIMDLimit("a", limit, 0.5, 1, nil)
	var viaWrapper = verif.Choice("wrapper", 2) == 1
	var l interface {
		OnSample(startTime int64, rtt int64, inFlight int, didDrop bool)
	} = a
	if viaWrapper {
		l = NewTracedLimit(a, NoopLimitLogger{})
	}
	last, calls := -1, 0
	a.NotifyOnChange(func(v int) { last = v; calls++ })
	verif.Spawn("s1", func() { a.OnSample(0, 1000, 1000, false) })
	verif.Spawn("s2", func() { l.OnSample(0, 1000, 1000, false) })
	verif.Parallel()
	verif.Assert("conc-last-delivered-is-estimate", last == a.EstimatedLimit())
	verif.Assert("conc-one-call-per-change", calls == 2 && a.EstimatedLimit() == limit+2)
	verif.Reach("end")
}
