//go:build verif

package limit

import (
	verif "github.com/platinummonkey/go-concurrency-limits/zz_verifrt"
)

// VerifC15_Vegas: after every sample the no-load baseline is either unset (0) or <= that sample's
// RTT, and it is either the previous baseline or this sample's RTT (hence, inductively, an RTT
// observed since the last reset: a probe replaces it by the probing sample's RTT).  Probe
// recurrence: if the sample was not a probe, the new probe count is below
// jitter*multiplier*estimate(before) <= multiplier*estimate, so resets recur within
// multiplier x limit samples.
//
//verif:harness property=C15 theory=real tier=quick timeout=120
func VerifC15_Vegas() {
	l, _ := verifVegasState(false)
	rtt := verif.Int64("rtt")
	inflight := verif.Int("inflight")
	verif.Assume(rtt >= 1 && rtt <= 1<<62 && inflight >= 0 && inflight < 1<<31)
	oldBase := l.rttNoLoad.Get()
	oldCount := l.probeCount
	estBefore := l.estimatedLimit
	mult := l.probeMultipler
	l.OnSample(0, rtt, inflight, verif.Bool("drop"))
	base := l.rttNoLoad.Get()
	verif.Assert("vegas-baseline-le-sample", base == 0 || base <= float64(rtt))
	verif.Assert("vegas-baseline-observed", base == oldBase || base == float64(rtt))
	verif.Assert("vegas-rttnoload-accessor", l.RTTNoLoad() == int64(base))
	probed := l.probeCount == 0
	if probed {
		verif.Assert("vegas-probe-resets-baseline", base == float64(rtt))
	} else {
		verif.Assert("vegas-probecount-advances", l.probeCount == oldCount+1)
		verif.Assert("vegas-probe-recurrence", float64(l.probeCount) < float64(mult)*estBefore*1.000001)
	}
	verif.Reach("end")
}

// VerifC15_Gradient: baseline after a sample is unset or <= the sample's RTT and is the previous
// baseline or this RTT; the probe countdown stays in [1, 2*interval) and every expiry resets the
// baseline (and re-arms the countdown in [interval, 2*interval)).
//
//verif:harness property=C15 theory=real tier=quick timeout=120
func VerifC15_Gradient() {
	l, _ := verifGradientState(false)
	rtt := verif.Int64("rtt")
	inflight := verif.Int("inflight")
	verif.Assume(rtt >= 1 && rtt <= 1<<62 && inflight >= 0 && inflight < 1<<31)
	oldBase := l.rttNoLoadMeasurement.Get()
	oldCounter := l.resetRTTCounter
	l.OnSample(0, rtt, inflight, verif.Bool("drop"))
	base := l.rttNoLoadMeasurement.Get()
	verif.Assert("gradient-baseline-le-sample", base == 0 || base <= float64(rtt))
	if l.probeInterval == ProbeDisabled {
		verif.Assert("gradient-baseline-observed", base == oldBase || base == float64(rtt))
	} else if oldCounter-1 <= 0 {
		verif.Assert("gradient-probe-resets-baseline", base == 0)
		verif.Assert("gradient-probe-rearms", l.resetRTTCounter >= l.probeInterval && l.resetRTTCounter < 2*l.probeInterval)
	} else {
		verif.Assert("gradient-countdown", l.resetRTTCounter == oldCounter-1 && l.resetRTTCounter >= 1)
		verif.Assert("gradient-baseline-observed", base == oldBase || base == float64(rtt))
	}
	verif.Assert("gradient-rttnoload-accessor", l.RTTNoLoad() == int64(base))
	verif.Reach("end")
}

// VerifC15_Gradient_Constructor: the constructor arms the countdown in [interval, 2*interval).
//
//verif:harness property=C15 theory=bv tier=quick
func VerifC15_Gradient_Constructor() {
	interval := verif.Int("probeInterval")
	verif.Assume(interval >= 1 && interval < 1<<30)
	l := NewGradientLimitWithRegistry("g", 50, 1, 1000, 0.2, nil, 2.0, interval, nil, nil)
	verif.Assert("gradient-constructor-countdown", l.resetRTTCounter >= interval && l.resetRTTCounter < 2*interval)
	verif.Assert("gradient-constructor-baseline-unset", l.RTTNoLoad() == 0)
	d := NewGradientLimitWithRegistry("g", 50, 1, 1000, 0.2, nil, 2.0, 0, nil, nil)
	verif.Assert("gradient-default-interval", d.probeInterval == 1000 && d.resetRTTCounter >= 1000 && d.resetRTTCounter < 2000)
	verif.Reach("end")
}
