//go:build verif

package limiter

import (
	"time"

	"github.com/platinummonkey/go-concurrency-limits/core"
)

// Exported inspection helpers for harnesses in other packages (add-only, verif-tagged).

// VerifDescribe reports what kind of limiter l is and how it is configured.
// kind: "queue", "blocking", "default", "other".
func VerifDescribe(l core.Limiter) (kind string, ordering QueueOrdering, maxBacklog uint64, timeout time.Duration, delegate core.Limiter) {
	switch x := l.(type) {
	case *QueueBlockingLimiter:
		return "queue", x.backlog.ordering, x.maxBacklogSize, x.maxBacklogTimeout, x.delegate
	case *BlockingLimiter:
		return "blocking", "", 0, x.timeout, x.delegate
	case *DefaultLimiter:
		return "default", "", 0, 0, nil
	}
	return "other", "", 0, 0, nil
}

// VerifDefaultParts exposes the strategy and limit of a DefaultLimiter.
func VerifDefaultParts(l *DefaultLimiter) (core.Strategy, core.Limit) { return l.strategy, l.limit }

// VerifSymbolicState puts a DefaultLimiter into an arbitrary state (sample window, next update time,
// in-flight gauge) so that harnesses outside the package reach its state-dependent paths (window
// roll-over, limit update) - used by the generated C17 race harnesses.
func VerifSymbolicState(l *DefaultLimiter) { verifLimiterState(l) }
