//go:build verif

package limiter

import (
	"context"
	"math"

	"github.com/platinummonkey/go-concurrency-limits/core"
	"github.com/platinummonkey/go-concurrency-limits/strategy"
	"github.com/platinummonkey/go-concurrency-limits/strategy/matchers"
	verif "github.com/platinummonkey/go-concurrency-limits/zz_verifrt"
)

func verifShare(limit int, f float64) int {
	s := int(math.Ceil(float64(int32(limit)) * f))
	if s < 1 {
		s = 1
	}
	return s
}

func floor1(e int) int {
	if e < 1 {
		return 1
	}
	return e
}

type verifStack struct {
	kind    int
	simple  *strategy.SimpleStrategy
	precise *strategy.PreciseStrategy
	lookup  *strategy.LookupPartitionStrategy
	la, lb  *strategy.LookupPartition
	pred    *strategy.PredicatePartitionStrategy
	pa, pb  *strategy.PredicatePartition
	s       core.Strategy
}

const verifFa, verifFb = 0.3, 0.5

// verifBuildStrategy: kind 0 simple, 1 precise, 2 lookup-partitioned (a:0.3, b:0.5), 3 predicate-partitioned.
func verifBuildStrategy(kind int, initial int) *verifStack {
	v := &verifStack{kind: kind}
	switch kind {
	case 0:
		v.simple = strategy.NewSimpleStrategy(initial)
		v.s = v.simple
	case 1:
		v.precise = strategy.NewPreciseStrategy(initial)
		v.s = v.precise
	case 2:
		// the partitions are created with an arbitrary initial total (callers pass 1, the total limit,
		// or anything else): the strategy's constructor must size them from ITS limit
		pl := verif.Int("partition.initLimit")
		verif.Assume(pl >= 1 && pl < 1<<30)
		v.la = strategy.NewLookupPartitionWithMetricRegistry("a", verifFa, int32(pl), core.EmptyMetricRegistryInstance)
		v.lb = strategy.NewLookupPartitionWithMetricRegistry("b", verifFb, int32(pl), core.EmptyMetricRegistryInstance)
		v.lookup, _ = strategy.NewLookupPartitionStrategyWithMetricRegistry(map[string]*strategy.LookupPartition{"a": v.la, "b": v.lb}, nil, int32(initial), core.EmptyMetricRegistryInstance)
		v.s = v.lookup
	default:
		pa := matchers.StringPredicateMatcher("x", false)
		pb := matchers.StringPredicateMatcher("y", false)
		v.pa = strategy.NewPredicatePartitionWithMetricRegistry("a", verifFa, pa, core.EmptyMetricRegistryInstance)
		v.pb = strategy.NewPredicatePartitionWithMetricRegistry("b", verifFb, pb, core.EmptyMetricRegistryInstance)
		v.pred, _ = strategy.NewPredicatePartitionStrategyWithMetricRegistry([]*strategy.PredicatePartition{v.pa, v.pb}, int32(initial), core.EmptyMetricRegistryInstance)
		v.s = v.pred
	}
	return v
}

// enforced asserts that the strategy enforces exactly limit e (floored at 1) and that every share is
// recomputed from that same value.
func (v *verifStack) enforced(tag string, e int) {
	want := floor1(e)
	switch v.kind {
	case 0:
		verif.Assert(tag+"-simple-limit", v.simple.GetLimit() == want)
	case 1:
		verif.Assert(tag+"-precise-limit", v.precise.GetLimit() == want)
	case 2:
		verif.Assert(tag+"-lookup-limit", v.lookup.Limit() == want)
		verif.Assert(tag+"-lookup-shares", v.la.Limit() == verifShare(want, verifFa) && v.lb.Limit() == verifShare(want, verifFb) &&
			strategy.VerifLookupUnknown(v.lookup).Limit() == verifShare(want, 0))
	default:
		verif.Assert(tag+"-pred-limit", v.pred.Limit() == want)
		verif.Assert(tag+"-pred-shares", v.pa.Limit() == verifShare(want, verifFa) && v.pb.Limit() == verifShare(want, verifFb))
	}
}

// VerifC05_Enforcement: for every strategy kind, right after NewDefaultLimiter the strategy enforces
// max(1, estimate) with shares of that value; and after a completion that triggers a sample-driven
// update (window state, clock and the algorithm's new estimate all symbolic, estimates in
// (-2^31, 2^31) incl. 0, negative and repeated values) it enforces the NEW estimate.
//
//verif:harness property=C05 theory=real tier=quick replay=engine
func VerifC05_Enforcement() {
	kind := verif.Choice("strategy", 4)
	e0 := verif.Int("estimate0")
	verif.Assume(e0 > -(1<<31) && e0 < 1<<31)
	d := &recLimit{est: e0}
	v := verifBuildStrategy(kind, 7)
	l := verifLimiterConfig(d, v.s)
	v.enforced("construction", e0)
	// the partition table may change after construction: a partition added dynamically (and one
	// removed) - the later update must recompute the added partition's share as well
	const fc = 0.2
	var lc *strategy.LookupPartition
	var pc *strategy.PredicatePartition
	dynamic := kind >= 2 && verif.Choice("dynamicPartitions", 2) == 1
	if dynamic {
		if kind == 2 {
			plc := verif.Int("partition.c.initLimit")
			verif.Assume(plc >= 1 && plc < 1<<30)
			lc = strategy.NewLookupPartitionWithMetricRegistry("c", fc, int32(plc), core.EmptyMetricRegistryInstance)
			verif.Assert("dynamic-add-ok", v.lookup.AddPartition("c", lc))
			verif.Assert("dynamic-add-share-of-current-limit", lc.Limit() == verifShare(floor1(e0), fc))
		} else {
			pc = strategy.NewPredicatePartitionWithMetricRegistry("c", fc, matchers.StringPredicateMatcher("z", false), core.EmptyMetricRegistryInstance)
			verif.Assert("dynamic-add-ok", v.pred.AddPartition(pc))
			verif.Assert("dynamic-add-share-of-current-limit", pc.Limit() == verifShare(floor1(e0), fc))
		}
	}
	// a completion from an arbitrary window state, with an arbitrary number of tokens outstanding at
	// the strategy (the new estimate may be far below it: lowering the limit revokes nothing, but the
	// enforced limit is still the estimate)
	verifLimiterState(l)
	out := verif.Int("outstanding")
	verif.Assume(out >= 0 && out < 1<<20)
	cur := floor1(e0)
	switch kind {
	case 0:
		strategy.VerifSetSimple(v.simple, int32(out), int32(cur))
	case 1:
		strategy.VerifSetPrecise(v.precise, int32(out), int32(cur))
	case 2:
		strategy.VerifSetLookup(v.lookup, int32(out), int32(out), 0, 0)
	default:
		strategy.VerifSetPred(v.pred, int32(out), int32(out), 0)
	}
	ctx := context.WithValue(context.WithValue(context.Background(), matchers.LookupPartitionContextKey, "a"), matchers.StringPredicateContextKey, "x")
	lst, ok := l.Acquire(ctx)
	verif.Assume(ok)
	if verif.Choice("outcome", 2) == 0 {
		lst.OnSuccess()
	} else {
		lst.OnDropped()
	}
	if d.samples > 0 {
		v.enforced("update", d.est)
		if dynamic && kind == 2 {
			verif.Assert("update-recomputes-dynamically-added-share", lc.Limit() == verifShare(floor1(d.est), fc))
		}
		if dynamic && kind == 3 {
			verif.Assert("update-recomputes-dynamically-added-share", pc.Limit() == verifShare(floor1(d.est), fc))
		}
		verif.Reach("updated")
	} else {
		v.enforced("no-update", e0)
	}
	verif.Reach("end")
}

// VerifC02_Default_Conservation: DefaultLimiter over each strategy kind from arbitrary counters:
// a grant adds exactly one unit at every layer (gauge, strategy total, the charged bin), the
// completion (any of the three outcomes) gives exactly that unit back, a refusal changes nothing,
// and a listener is returned iff ok.
//
//verif:harness property=C02 theory=real tier=quick replay=engine
func VerifC02_Default_Conservation() {
	kind := verif.Choice("strategy", 4)
	L := verif.Int("limit")
	verif.Assume(L >= 1 && L < 1<<30)
	d := &recLimit{est: L}
	v := verifBuildStrategy(kind, L)
	l := verifLimiterConfig(d, v.s)
	verifLimiterState(l)
	*l.inFlight = 0
	g := verif.Int64("gauge0")
	verif.Assume(g >= 0 && g < 1<<30)
	*l.inFlight = g
	ba, bb, bo := verif.Int("busy.a"), verif.Int("busy.b"), verif.Int("busy.other")
	verif.Assume(ba >= 0 && bb >= 0 && bo >= 0 && ba < 1<<28 && bb < 1<<28 && bo < 1<<28)
	total := ba + bb + bo
	switch kind {
	case 0:
		strategy.VerifSetSimple(v.simple, int32(total), int32(L))
	case 1:
		strategy.VerifSetPrecise(v.precise, int32(total), int32(L))
	case 2:
		strategy.VerifSetLookup(v.lookup, int32(total), int32(ba), int32(bb), int32(bo))
	default:
		strategy.VerifSetPred(v.pred, int32(total), int32(ba), int32(bb))
	}
	// the request is for partition a, or for a key / value no partition is configured for (lookup:
	// charged to the unknown bin; predicate: refused)
	unknownKey := kind >= 2 && verif.Choice("unknownKey", 2) == 1
	// slot "a" of the bookkeeping below is the bin the request is charged to: partition a, or - for
	// an unknown key of the lookup strategy - the unknown bin (partition a itself must then not move)
	chargedToUnknown := kind == 2 && unknownKey
	baKnown := ba
	if chargedToUnknown {
		ba = bo
	}
	busy := func() (int, int, int) {
		switch kind {
		case 0:
			return v.simple.GetBusyCount(), 0, 0
		case 1:
			return v.precise.GetBusyCount(), 0, 0
		case 2:
			if chargedToUnknown {
				verif.Assert("unknown-key-leaves-named-bins-alone", v.la.BusyCount() == baKnown)
				return v.lookup.BusyCount(), strategy.VerifLookupUnknown(v.lookup).BusyCount(), v.lb.BusyCount()
			}
			return v.lookup.BusyCount(), v.la.BusyCount(), v.lb.BusyCount()
		}
		return v.pred.BusyCount(), v.pa.BusyCount(), v.pb.BusyCount()
	}
	key, val := "a", "x"
	if unknownKey {
		key, val = "no-such-partition", "no-such-value"
	}
	// the caller's context is in an arbitrary state (live, or cancelled at any instant)
	ctx := context.WithValue(context.WithValue(verif.CancelCtx("caller"), matchers.LookupPartitionContextKey, key), matchers.StringPredicateContextKey, val)
	lst, ok := l.Acquire(ctx)
	verif.Assert("listener-iff-ok", (lst != nil) == ok)
	t1, a1, b1 := busy()
	if kind == 3 && unknownKey {
		verif.Assert("predicate-refuses-unmatched-request", !ok)
	}
	if !ok {
		verif.Assert("refusal-holds-nothing", *l.inFlight == g && t1 == total && (kind < 2 || (a1 == ba && b1 == bb)))
		verif.Reach("refused")
		return
	}
	verif.Assert("grant-takes-one-unit", *l.inFlight == g+1 && t1 == total+1 && (kind < 2 || (a1 == ba+1 && b1 == bb)))
	switch verif.Choice("outcome", 3) {
	case 0:
		lst.OnSuccess()
	case 1:
		lst.OnIgnore()
	default:
		lst.OnDropped()
	}
	t2, a2, b2 := busy()
	verif.Assert("completion-returns-one-unit", *l.inFlight == g && t2 == total && (kind < 2 || (a2 == ba && b2 == bb)))
	verif.Reach("completed")
}

// VerifC02_WrapperListeners: the blocking/deadline DelegateListener and the QueueBlockingListener
// complete their delegate listener exactly once with the same outcome.
//
//verif:harness property=C02 theory=bv tier=quick
func VerifC02_WrapperListeners() {
	outcome := verif.Choice("outcome", 3)
	complete := func(l core.Listener) {
		switch outcome {
		case 0:
			l.OnSuccess()
		case 1:
			l.OnIgnore()
		default:
			l.OnDropped()
		}
	}
	check := func(tag string, r *recListener) {
		verif.Assert(tag+"-once", r.total() == 1)
		verif.Assert(tag+"-same-outcome", (outcome == 0) == (r.success == 1) && (outcome == 1) == (r.ignore == 1) && (outcome == 2) == (r.dropped == 1))
	}
	r1 := &recListener{}
	complete(NewDelegateListener(r1))
	check("delegate-listener", r1)
	r2 := &recListener{}
	q := NewQueueBlockingLimiterWithDefaults(&recLimiter{alwaysNo: true})
	complete(&QueueBlockingListener{delegateListener: r2, limiter: q})
	check("queue-listener", r2)
	verif.Assert("queue-backlog-empty", q.backlog.len() == 0)
	verif.Reach("end")
}

// VerifC01_Default_GateDecision (sequential step): DefaultLimiter over the simple / precise strategy
// from arbitrary counters, the caller's context in an arbitrary state (live or cancelled): the call
// is granted iff the in-flight count was below the enforced limit - in particular it is never
// refused while capacity is free, whatever the context says - and a refusal leaves the counter alone.
//
//verif:harness property=C01 theory=real tier=quick replay=engine
func VerifC01_Default_GateDecision() {
	kind := verif.Choice("strategy", 2)
	L := verif.Int("limit")
	verif.Assume(L >= 1 && L < 1<<30)
	d := &recLimit{est: L}
	v := verifBuildStrategy(kind, L)
	l := verifLimiterConfig(d, v.s)
	verifLimiterState(l)
	busy0 := verif.Int("busy")
	verif.Assume(busy0 >= 0 && busy0 < 1<<30)
	if kind == 0 {
		strategy.VerifSetSimple(v.simple, int32(busy0), int32(L))
	} else {
		strategy.VerifSetPrecise(v.precise, int32(busy0), int32(L))
	}
	_, ok := l.Acquire(verif.CancelCtx("caller"))
	busy1 := 0
	if kind == 0 {
		busy1 = v.simple.GetBusyCount()
	} else {
		busy1 = v.precise.GetBusyCount()
	}
	verif.Assert("granted-iff-below-limit", ok == (busy0 < L))
	verif.Assert("counter-follows-decision", busy1 == busy0+verif.B2I(ok))
	verif.Reach("end")
}
