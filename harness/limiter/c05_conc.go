//go:build verif

package limiter

import (
	"github.com/platinummonkey/go-concurrency-limits/core"
	verif "github.com/platinummonkey/go-concurrency-limits/zz_verifrt"
)

// seqLimit: a limit algorithm whose k-th sample-driven update returns the k-th of two arbitrary
// estimates (so that two updates can be told apart).
type seqLimit struct {
	est     int
	next    [2]int
	samples int
}

func (r *seqLimit) EstimatedLimit() int                       { return r.est }
func (r *seqLimit) NotifyOnChange(c core.LimitChangeListener) {}
func (r *seqLimit) OnSample(start int64, rtt int64, inflight int, d bool) {
	if r.samples < 2 {
		r.est = r.next[r.samples]
	}
	r.samples++
}

// VerifC05_Conc_TwoUpdates (event-order): two holders complete concurrently, each with its own clock
// reading (free clock: arbitrary non-decreasing instants) and each seeing a ready window, so that
// BOTH may drive a sample-driven update (the second one when its end time lies beyond the next
// update time set by the first).  At quiescence the limit enforced by the strategy equals the
// algorithm's current estimate - the publication of an update cannot be overtaken by a later one.
//
//verif:harness property=C05 theory=bv tier=quick maxpaths=20000 clock=free
func VerifC05_Conc_TwoUpdates() {
	kind := verif.Choice("strategy", 2)
	e1, e2 := verif.Int("estimate1"), verif.Int("estimate2")
	verif.Assume(e1 >= 1 && e1 < 1<<30 && e2 >= 1 && e2 < 1<<30)
	l, st, ls, _ := verifC01Limiter(kind, 3, 3, 2)
	d := &seqLimit{est: 3, next: [2]int{e1, e2}}
	l.limit = d
	o1, o2 := verif.Choice("outcome1", 2), verif.Choice("outcome2", 2)
	complete := func(x core.Listener, o int) func() {
		return func() {
			if o == 0 {
				x.OnSuccess()
			} else {
				x.OnDropped()
			}
		}
	}
	verif.Spawn("c1", complete(ls[0], o1))
	verif.Spawn("c2", complete(ls[1], o2))
	verif.Parallel()
	verif.Assert("two-updates-enforcement-is-current-estimate", limitOf(st) == d.EstimatedLimit())
	if d.samples >= 2 {
		verif.Reach("both-updated")
	}
	verif.Reach("end")
}
