//go:build verif

package limiter

import (
	"container/list"
	"context"
	"time"

	"github.com/platinummonkey/go-concurrency-limits/core"
	verif "github.com/platinummonkey/go-concurrency-limits/zz_verifrt"
)

// VerifC11_QueueOrder: the backlog queue on the real container/list: N pushes (N <= 4), an arbitrary
// subset evicted (time-outs / cancellations), both orderings: peek returns the oldest (FIFO) or
// newest (LIFO) element still waiting, pop removes exactly it.
//
//verif:harness property=C11 theory=bv tier=quick
func VerifC11_QueueOrder() {
	ord := []QueueOrdering{OrderingFIFO, OrderingLIFO}[verif.Choice("ordering", 2)]
	q := &queue{list: list.New(), ordering: ord}
	n := 2 + verif.Choice("waiters", verif.Tiered(3, 5))
	evicts := make([]EvictFunc, n)
	chans := make([]<-chan core.Listener, n)
	ctxs := make([]context.Context, n)
	for i := 0; i < n; i++ {
		ctxs[i] = context.WithValue(context.Background(), "waiter", i)
		evicts[i], chans[i] = q.push(ctxs[i])
	}
	gone := make([]bool, n)
	for i := 0; i < n; i++ {
		if verif.Bool("evicted") {
			evicts[i]()
			gone[i] = true
		}
	}
	remaining := 0
	for i := 0; i < n; i++ {
		if !gone[i] {
			remaining++
		}
	}
	verif.Assert("queue-len-is-remaining", int(q.len()) == remaining)
	// serve everybody that is left, checking the order
	for served := 0; served < remaining; served++ {
		want := -1
		if ord == OrderingFIFO {
			for i := 0; i < n; i++ {
				if !gone[i] {
					want = i
					break
				}
			}
		} else {
			for i := n - 1; i >= 0; i-- {
				if !gone[i] {
					want = i
					break
				}
			}
		}
		_, pe := q.peek()
		verif.Assert("peek-next-in-order", pe != nil && pe.ctx == ctxs[want])
		e := q.pop()
		verif.Assert("pop-next-in-order", e != nil && e.ctx == ctxs[want])
		gone[want] = true
	}
	_, last := q.peek()
	verif.Assert("queue-empty-at-end", last == nil && q.len() == 0 && q.pop() == nil)
	verif.Reach("end")
}

func verifServedOrder(tag string, q *QueueBlockingLimiter, d *recLimiter, lifo bool) {
	// three waiters parked in the backlog (their receive side is ready: sequential channel model)
	var chans [3]<-chan core.Listener
	var ctxs [3]context.Context
	for i := 0; i < 3; i++ {
		ctxs[i] = context.WithValue(context.Background(), "waiter", i)
		_, chans[i] = q.backlog.push(ctxs[i])
		verif.Offer(chans[i], true, nil)
	}
	for k := 0; k < 3; k++ {
		want := k
		if lifo {
			want = 2 - k
		}
		calls := d.calls
		(&QueueBlockingListener{delegateListener: &recListener{}, limiter: q}).OnSuccess()
		verif.Assert(tag+"-release-acquires-for-next", d.calls == calls+1 && d.ctxs[calls] == ctxs[want])
		got, ok := <-chans[want]
		verif.Assert(tag+"-served-in-order", ok && got != nil)
	}
	verif.Assert(tag+"-backlog-drained", q.backlog.len() == 0)
}

type grantAll struct{ recLimiter }

// VerifC11_Constructors: every way of constructing a queue limiter selects the order its name and
// documentation state (config fifo / lifo / empty = documented default LIFO, WithDefaults, the
// deprecated Fifo/Lifo constructors): three parked waiters are served oldest-first (FIFO) or
// newest-first (LIFO) by three releases.
//
//verif:harness property=C11 theory=bv tier=quick replay=engine
func VerifC11_Constructors() {
	d := &recLimiter{}
	which := verif.Choice("constructor", 8)
	var q *QueueBlockingLimiter
	lifo := false
	switch which {
	case 0:
		q = NewQueueBlockingLimiterFromConfig(d, QueueLimiterConfig{Ordering: OrderingFIFO})
	case 1:
		q, lifo = NewQueueBlockingLimiterFromConfig(d, QueueLimiterConfig{Ordering: OrderingLIFO}), true
	case 2:
		q, lifo = NewQueueBlockingLimiterFromConfig(d, QueueLimiterConfig{}), true
	case 3:
		q, lifo = NewQueueBlockingLimiterWithDefaults(d), true
	case 4:
		q = NewFifoBlockingLimiter(d, 10, time.Second).QueueBlockingLimiter
	case 5:
		q = NewFifoBlockingLimiterWithDefaults(d).QueueBlockingLimiter
	case 6:
		q, lifo = NewLifoBlockingLimiter(d, 10, time.Second, nil).QueueBlockingLimiter, true
	default:
		q, lifo = NewLifoBlockingLimiterWithDefaults(d).QueueBlockingLimiter, true
	}
	verif.Class("lifo_requested", lifo)
	// the delegate grants every request made on behalf of a waiter
	d.alwaysNo = false
	verifGrantAll = true
	verifServedOrder("ctor", q, d, lifo)
	verif.Reach("end")
}

var verifGrantAll = false

// recording registry capturing gauge suppliers
type recRegistry struct {
	core.EmptyMetricRegistry
	gauges map[string]core.MetricSupplier
}

func (r *recRegistry) RegisterGauge(ID string, supplier core.MetricSupplier, tags ...string) {
	if r.gauges == nil {
		r.gauges = map[string]core.MetricSupplier{}
	}
	r.gauges[ID] = supplier
}

// VerifC12_BacklogBound: a caller that finds the backlog at its configured maximum is refused at once
// (no push, no waiting); below the maximum exactly one element is queued while the caller waits and
// it has left the backlog when Acquire returns by time-out or (if enabled) cancellation; the
// queue_size gauge reports the backlog length.
//
//verif:harness property=C12 theory=bv tier=quick blocked=violation replay=engine unwind=120
func VerifC12_BacklogBound() {
	d := &recLimiter{alwaysNo: true}
	reg := &recRegistry{}
	// every configured size: a non-positive one means the documented default of 100
	maxB := verif.Int("maxBacklogSize")
	verif.Assume(maxB > -(1<<31) && maxB < 1<<31)
	effB := maxB
	if maxB <= 0 {
		effB = 100
	}
	evict := verif.Bool("evictDoneCtx")
	to := verif.Int64("timeout")
	verif.Assume(to >= 1 && to < 1<<60)
	q := NewQueueBlockingLimiterFromConfig(d, QueueLimiterConfig{Ordering: OrderingFIFO, MaxBacklogSize: maxB, MaxBacklogTimeout: time.Duration(to), BacklogEvictDoneCtx: evict, MetricRegistry: reg})
	// callers already blocked: 0..3 (0..6 thorough), or 99 / 100 / 101 (around the default bound)
	sizes := []int{0, 1, 2, 3, 99, 100, 101, 4, 5, 6}
	n := sizes[verif.Choice("prefilled", verif.Tiered(7, 10))]
	// the callers already blocked: when cancellation does not evict (the default) their contexts may
	// have been cancelled at any instant (or never) - they are still blocked and still count
	wnames := []string{"w0", "w1", "w2", "w3", "w4", "w5", "w6"}
	for i := 0; i < n; i++ {
		pctx := context.Background()
		if !evict && i < len(wnames) {
			pctx = verif.CancelCtx(wnames[i])
		}
		q.backlog.push(pctx)
	}
	size, ok := reg.gauges[core.MetricQueueSize]()
	verif.Assert("gauge-reports-backlog", ok && size == float64(n))
	lim, ok2 := reg.gauges[core.MetricQueueLimit]()
	verif.Assert("gauge-reports-limit", ok2 && lim == float64(effB))
	ctx := verif.CancelCtx("ctx")
	lst, got := q.Acquire(ctx)
	verif.Assert("refused-without-capacity", !got && lst == nil)
	verif.Assert("backlog-exact-after-return", int(q.backlog.len()) == n)
	if n >= effB {
		verif.Assert("full-backlog-refused-at-once", verif.ClockReadings() == 0 && verif.Now() == 0 && d.calls == 1)
		verif.Reach("full")
	} else {
		verif.Reach("waited")
	}
}

// VerifC11_Queue_ThreeParked_GiveUp (event-order): three callers parked in arrival order w0, w1, w2
// (verif.SpawnAfter), cancellation eviction enabled, w0's context cancelled by the environment at any
// moment (in particular between the releaser's peek and its hand-off) or never; then the holder
// completes.  Whoever is served, no caller that is ahead of it in the configured order is still
// waiting (FIFO: the longest-waiting still-waiting caller; LIFO: the most recent).
//
//verif:harness property=C11 theory=bv tier=thorough timers=off unwind=3 unwindcut=1 clock=frozen maxpaths=60000
func VerifC11_Queue_ThreeParked_GiveUp() {
	ord := []QueueOrdering{OrderingFIFO, OrderingLIFO}[verif.Choice("ordering", 2)]
	o := verifQueueWaiters(3, ord, true, true)
	verif.Assert("served-in-configured-order-among-still-waiting", o.inOrder)
	verif.Reach("end")
}

// VerifC11_Release_AmongStillWaiting: three callers parked in arrival order; an arbitrary subset of
// them has just given up (time-out / cancellation: they no longer listen on their hand-off channel
// but have not removed themselves from the backlog yet - the window a release can fall into).  One
// release: whoever receives the token, no caller ahead of it in the configured order is still
// listening; at most one caller is served; a caller that gave up is never served.
//
//verif:harness property=C11 theory=bv tier=quick replay=engine
func VerifC11_Release_AmongStillWaiting() {
	d := &recLimiter{}
	verifGrantAll = true
	lifo := verif.Choice("ordering", 2) == 1
	ord := OrderingFIFO
	if lifo {
		ord = OrderingLIFO
	}
	q := NewQueueBlockingLimiterFromConfig(d, QueueLimiterConfig{Ordering: ord, BacklogEvictDoneCtx: verif.Choice("evictDoneCtx", 2) == 1})
	var chans [3]<-chan core.Listener
	var listening [3]bool
	var evicts [3]EvictFunc
	for i := 0; i < 3; i++ {
		evicts[i], chans[i] = q.backlog.push(context.WithValue(context.Background(), "waiter", i))
		listening[i] = verif.Bool("listening")
		verif.Offer(chans[i], listening[i], nil)
	}
	// one of the callers that gave up may remove itself from the backlog WHILE the releaser is inside
	// the delegate's Acquire on behalf of the caller it peeked (the backlog's head changes under it)
	if k := verif.Choice("leavesDuringReacquire", 4); k < 3 && !listening[k] {
		left := false
		d.during = func() {
			if !left {
				left = true
				evicts[k]()
			}
		}
	}
	(&QueueBlockingListener{delegateListener: &recListener{}, limiter: q}).OnSuccess()
	var served [3]bool
	nServed := 0
	for i := 0; i < 3; i++ {
		verif.Offer(chans[i], false, nil) // from here on the harness only polls what was handed over
		select {
		case l, ok := <-chans[i]:
			served[i] = ok && l != nil
		default:
		}
		nServed += verif.B2I(served[i])
	}
	verif.Assert("release-serves-at-most-one", nServed <= 1)
	for i := 0; i < 3; i++ {
		verif.Assert("release-never-serves-a-caller-that-gave-up", verif.Implies(served[i], listening[i]))
		for j := 0; j < 3; j++ {
			ahead := j < i
			if lifo {
				ahead = j > i
			}
			if ahead {
				verif.Assert("release-serves-next-in-order-among-still-waiting", verif.Not(verif.And(served[i], listening[j])))
			}
		}
	}
	verif.Reach("end")
}

// verifReleaseKeepsWaiters: n callers parked in arrival order (an arbitrary subset has just given up
// and no longer listens), `releases` releases whose delegate.Acquire on behalf of the next waiter is
// granted or refused arbitrarily (refused = another caller barged in between the token's release and
// the re-acquire, or the limit shrank).  Afterwards every caller that was not served gives up (calls
// the eviction function Acquire would call on time-out / cancellation).  Reports, per waiter, whether
// it was served, whether it was still in the backlog before giving up, and whether it had left the
// backlog after giving up.
type verifRelObs struct {
	n                                  int
	lifo                               bool
	listening, served, queued, cleared [3]bool
	q                                  *QueueBlockingLimiter
	d                                  *recLimiter
	lenAfterGiveUp                     int
}

func verifReleaseKeepsWaiters(n, releases int) (o verifRelObs) {
	o.n = n
	o.d = &recLimiter{}
	verifGrantAll = false
	o.lifo = verif.Choice("ordering", 2) == 1
	ord := OrderingFIFO
	if o.lifo {
		ord = OrderingLIFO
	}
	o.q = NewQueueBlockingLimiterFromConfig(o.d, QueueLimiterConfig{Ordering: ord})
	q := o.q
	var chans [3]<-chan core.Listener
	var ctxs [3]context.Context
	var evicts [3]EvictFunc
	for i := 0; i < n; i++ {
		ctxs[i] = context.WithValue(context.Background(), "waiter", i)
		evicts[i], chans[i] = q.backlog.push(ctxs[i])
		o.listening[i] = verif.Bool("listening")
		verif.Offer(chans[i], o.listening[i], nil)
	}
	// one of the callers that gave up may remove itself from the backlog WHILE a releaser is inside
	// the delegate's Acquire on behalf of the caller it peeked (the head changes under the releaser)
	if k := verif.Choice("leavesDuringReacquire", n+1); k < n && !o.listening[k] {
		left := false
		o.d.during = func() {
			if !left {
				left = true
				evicts[k]()
			}
		}
	}
	for k := 0; k < releases; k++ {
		(&QueueBlockingListener{delegateListener: &recListener{}, limiter: q}).OnSuccess()
	}
	inBacklog := func(i int) bool {
		for e := q.backlog.list.Front(); e != nil; e = e.Next() {
			if e.Value.(*queueElement).ctx == ctxs[i] {
				return true
			}
		}
		return false
	}
	for i := 0; i < n; i++ {
		verif.Offer(chans[i], false, nil)
		select {
		case l, ok := <-chans[i]:
			o.served[i] = ok && l != nil
		default:
		}
		o.queued[i] = inBacklog(i)
	}
	// everybody who was not served gives up now
	for i := 0; i < n; i++ {
		if !o.served[i] {
			evicts[i]()
		}
		o.cleared[i] = !inBacklog(i)
	}
	o.lenAfterGiveUp = int(q.backlog.len())
	return
}

// VerifC12_Release_KeepsUnservedWaitersQueued: the backlog contains exactly the callers currently
// blocked: a caller that is still listening and was not served by the releases so far is still in
// the backlog (a release that fails to re-acquire must not drop it), a served caller has left it,
// and a caller that gives up afterwards (its own eviction function) really leaves: no ghost entry
// stays behind to be counted by queue_size or to refuse later callers.
//
//verif:harness property=C12 theory=bv tier=quick replay=engine
func VerifC12_Release_KeepsUnservedWaitersQueued() {
	n := 1 + verif.Choice("releases", 2)
	o := verifReleaseKeepsWaiters(2, n)
	for i := 0; i < 2; i++ {
		verif.Assert("blocked-caller-stays-in-backlog", verif.Implies(verif.And(o.listening[i], verif.Not(o.served[i])), o.queued[i]))
		verif.Assert("served-caller-left-backlog", verif.Implies(o.served[i], verif.Not(o.queued[i])))
		verif.Assert("caller-that-gave-up-left-backlog", o.cleared[i])
	}
	verif.Assert("backlog-empty-once-nobody-is-blocked", o.lenAfterGiveUp == 0)
	verif.Reach("end")
}

// VerifC11_Releases_KeepArrivalOrder: three callers parked in arrival order, up to three releases of
// which any may fail to re-acquire (barging caller / shrunken limit): refused hand-offs do not
// disturb the order - whenever a caller has been served, every still-listening caller ahead of it in
// the configured order has been served too.
//
//verif:harness property=C11 theory=bv tier=quick replay=engine
func VerifC11_Releases_KeepArrivalOrder() {
	n := 1 + verif.Choice("releases", 3)
	o := verifReleaseKeepsWaiters(3, n)
	for i := 0; i < 3; i++ {
		for j := 0; j < 3; j++ {
			ahead := j < i
			if o.lifo {
				ahead = j > i
			}
			if ahead {
				verif.Assert("refused-handoffs-keep-the-order", verif.Implies(verif.And(o.served[i], o.listening[j]), o.served[j]))
			}
		}
	}
	verif.Reach("end")
}

// VerifC11_ArrivalKeepsOrder: two callers are parked (their contexts may have been cancelled at any
// instant - with the default configuration they keep waiting); a third caller arrives through the
// real Acquire while the backlog is full (bound 2) or has room (bound 3); then one release.  The
// release re-acquires on behalf of the caller the configured order puts first among those queued:
// FIFO the oldest parked caller; LIFO the newcomer if it was admitted, else the newest parked one.
// A newcomer that found the backlog full is refused and never queued (it displaces nobody).
//
//verif:harness property=C11 theory=bv tier=quick replay=engine timers=off
func VerifC11_ArrivalKeepsOrder() {
	d := &recLimiter{}
	verifGrantAll = false
	lifo := verif.Choice("ordering", 2) == 1
	ord := OrderingFIFO
	if lifo {
		ord = OrderingLIFO
	}
	room := verif.Choice("room", 2) == 1
	bound := 2
	if room {
		bound = 3
	}
	q := NewQueueBlockingLimiterFromConfig(d, QueueLimiterConfig{Ordering: ord, MaxBacklogSize: bound, MaxBacklogTimeout: time.Hour})
	var ctxs [2]context.Context
	names := []string{"w0", "w1"}
	for i := 0; i < 2; i++ {
		ctxs[i] = context.WithValue(verif.CancelCtx(names[i]), "waiter", i)
		_, ch := q.backlog.push(ctxs[i])
		verif.Offer(ch, true, nil)
	}
	ctxN := context.WithValue(context.Background(), "waiter", 2)
	d.alwaysNo = true // the newcomer's own attempt at the delegate is refused: it has to queue
	newcomerReturned := false
	go func() {
		q.Acquire(ctxN)
		newcomerReturned = true
	}()
	d.alwaysNo = false
	verifGrantAll = true
	verif.Assert("full-backlog-refuses-newcomer-at-once", room || (newcomerReturned && q.backlog.len() == 2))
	verif.Assert("backlog-with-room-queues-newcomer", !room || (!newcomerReturned && q.backlog.len() == 3))
	calls := d.calls
	(&QueueBlockingListener{delegateListener: &recListener{}, limiter: q}).OnSuccess()
	verif.Assert("release-reacquires-once", d.calls == calls+1)
	want := ctxs[0]
	if lifo {
		want = ctxs[1]
		if room {
			want = ctxN
		}
	}
	verif.Assert("release-serves-configured-head-after-arrival", d.ctxs[calls] == want)
	verif.Reach("end")
}
