//go:build verif

package limiter

import (
	"math"
	"time"

	verif "github.com/platinummonkey/go-concurrency-limits/zz_verifrt"
)

// Sequential virtual-clock model (DESIGN Appendix B): time.Now returns arbitrary non-decreasing
// instants; a blocking select wakes at an arbitrary instant that is not later than the earliest
// instant at which one of its cases is ready (timer: armed_at + d, context: its cancellation
// instant, the `ready` channel of blockUntilSignaled: iff the helper goroutine was signalled); a
// select none of whose cases can ever become ready blocks forever (reported as a violation here).

// VerifC13_Queue_Bounds: the queue limiter with no capacity offered returns refused exactly at
// armed_at + timeout, or at the cancellation instant if that is earlier and eviction of cancelled
// contexts is enabled -- not later, not earlier -- and never blocks forever.
//
//verif:harness property=C13 theory=bv tier=quick blocked=violation replay=engine clock=frozen
func VerifC13_Queue_Bounds() {
	d := &recLimiter{alwaysNo: true}
	to := verif.Int64("timeout")
	verif.Assume(to >= 1 && to < 1<<60)
	evict := verif.Bool("evictDoneCtx")
	q := NewQueueBlockingLimiterFromConfig(d, QueueLimiterConfig{MaxBacklogSize: 10, MaxBacklogTimeout: time.Duration(to), BacklogEvictDoneCtx: evict})
	cancelAt := verif.Int64("cancelAt")
	verif.Assume(cancelAt >= 0)
	// the context may carry a deadline (reported by ctx.Deadline()); it is done no later than that
	hasDl := verif.Bool("ctxHasDeadline")
	dl := verif.Int64("ctxDeadline")
	verif.Assume(dl >= 0 && dl < 1<<61)
	verif.Assume(verif.Implies(hasDl, cancelAt <= dl))
	ctx := verif.DeadlineCtxAt(cancelAt, dl, hasDl)
	t0 := verif.Int64("arrival")
	verif.Assume(t0 >= 0 && t0 < 1<<60)
	verif.SetNow(t0)
	lst, ok := q.Acquire(ctx)
	t1 := verif.Now()
	verif.Assert("queue-refused", !ok && lst == nil)
	bound := t0 + to
	if evict && cancelAt < bound {
		bound = cancelAt
		if bound < t0 {
			bound = t0
		}
	}
	verif.Assert("queue-returns-exactly-at-bound", t1 == bound)
	verif.Reach("end")
}

// VerifC13_Blocking: the blocking limiter (timeout = re-poll interval or 0) with no capacity
// offered and never signalled: an already-cancelled context is refused without touching the
// delegate; otherwise it returns refused only once the context is cancelled, no later than the
// cancellation instant (or the end of the poll interval running at that instant is NOT needed: the
// select wakes on ctx.Done); with a context that is never cancelled it keeps waiting (bounded
// unrolling of the retry loop; the loop body is stateless apart from the clock).
//
//verif:harness property=C13 theory=bv tier=quick replay=engine unwind=4 unwind_thorough=7 unwindcut=1 clock=frozen
func VerifC13_Blocking() {
	d := &recLimiter{alwaysNo: true}
	to := verif.Int64("timeout")
	verif.Assume(to >= 0 && to < 1<<60)
	b := NewBlockingLimiter(d, time.Duration(to), nil)
	cancelAt := verif.Int64("cancelAt")
	verif.Assume(cancelAt >= 0)
	ctx := verif.CancelCtxAt(cancelAt)
	t0 := verif.Int64("arrival")
	verif.Assume(t0 >= 0 && t0 < 1<<60)
	verif.SetNow(t0)
	lst, ok := b.Acquire(ctx)
	t1 := verif.Now()
	verif.Assert("blocking-refused", !ok && lst == nil)
	verif.Assert("blocking-refused-only-when-cancelled", cancelAt <= t1 && cancelAt != math.MaxInt64)
	if cancelAt <= t0 {
		verif.Assert("blocking-precancelled-no-capacity-touched", d.calls == 0 && t1 == t0)
		verif.Reach("precancelled")
	} else {
		verif.Assert("blocking-returns-at-cancellation", t1 == cancelAt)
		verif.Reach("cancelled-while-blocked")
	}
}

// VerifC13_Deadline: the deadline limiter with no capacity offered and never signalled: after the
// deadline (or with an already-cancelled context) the call is refused without touching the
// delegate; otherwise it returns refused exactly at min(deadline, cancellation) and never blocks
// past it (in particular not when the clock reads exactly the deadline).
//
//verif:harness property=C13 theory=bv tier=quick blocked=violation replay=engine unwind=4 unwind_thorough=7 unwindcut=1 clock=frozen
func VerifC13_Deadline() {
	d := &recLimiter{alwaysNo: true}
	dl := verif.Int64("deadline")
	verif.Assume(dl >= 0 && dl < 1<<60)
	b := NewDeadlineLimiter(d, verif.TimeAt(dl), nil)
	cancelAt := verif.Int64("cancelAt")
	verif.Assume(cancelAt >= 0)
	ctx := verif.CancelCtxAt(cancelAt)
	t0 := verif.Int64("arrival")
	verif.Assume(t0 >= 0 && t0 < 1<<60)
	verif.SetNow(t0)
	lst, ok := b.Acquire(ctx)
	t1 := verif.Now()
	verif.Assert("deadline-refused", !ok && lst == nil)
	if cancelAt <= t0 {
		verif.Assert("deadline-precancelled-no-capacity-touched", d.calls == 0 && t1 == t0)
		verif.Reach("precancelled")
		return
	}
	if t0 > dl {
		verif.Assert("deadline-passed-no-capacity-touched", d.calls == 0 && t1 == t0)
		verif.Reach("after-deadline")
		return
	}
	bound := dl
	if cancelAt < bound {
		bound = cancelAt
	}
	verif.Assert("deadline-returns-exactly-at-bound", t1 == bound)
	verif.Reach("waited")
}
