//go:build verif

package limiter

import (
	verif "github.com/platinummonkey/go-concurrency-limits/zz_verifrt"
)

// VerifC19_QueuedCallerServedByLaterRelease: the queue limiter underneath the FIFO/LIFO pools: a
// queued caller that keeps waiting is served by a later release even if earlier releases lost the
// race for the freed token to a barging caller (their re-acquire on its behalf was refused).  After
// three releases with two callers waiting: either both have been served, or every release tried to
// acquire on behalf of a waiting caller and every granted re-acquire served one (the only reason for
// an unserved waiting caller is a refused re-acquire; it is retried by the next release).
//
//verif:harness property=C19 theory=bv tier=quick replay=engine
func VerifC19_QueuedCallerServedByLaterRelease() {
	o := verifReleaseKeepsWaiters(2, 3)
	d, listening, served := o.d, o.listening, o.served
	nServed := verif.B2I(served[0]) + verif.B2I(served[1])
	verif.Assert("served-at-most-the-granted-reacquires", nServed <= d.grants)
	both := verif.And(listening[0], listening[1])
	retried := verif.And(d.calls == 3, nServed == d.grants)
	verif.Assert("every-waiting-caller-served-or-retried-by-every-release", verif.Implies(both, verif.Or(nServed == 2, retried)))
	verif.Reach("end")
}
