//go:build verif

package limiter

import (
	"context"
	"time"

	"github.com/platinummonkey/go-concurrency-limits/core"
	verif "github.com/platinummonkey/go-concurrency-limits/zz_verifrt"
)

// verifGiveUpRace: the queue limiter over a full limiter of limit 1 (held by R since setup), one
// caller W that finds the limit reached and waits in the backlog WITH its backlog timer armed (the
// timer may fire at any moment: the give-up can race with the hand-off at every point), and the
// holder R completing with an arbitrary outcome, all interleavings.  At quiescence:
//
//	C02: W returned a listener iff ok; a W that was refused holds no capacity (strategy busy and the
//	     limiter gauge equal the tokens actually owned by a caller), nothing is left in flight;
//	C12: the backlog is empty once W has returned (granted or timed out) and its reported size is 0.
func verifGiveUpRace(tag string) {
	inner, st := verifFullLimiter()
	q := NewQueueBlockingLimiterFromConfig(inner, QueueLimiterConfig{Ordering: OrderingFIFO, MaxBacklogSize: 10, MaxBacklogTimeout: time.Second})
	held, ok := q.Acquire(context.Background())
	verif.Assert(tag+"-setup-holds-the-only-token", ok && st.GetBusyCount() == 1)
	outcome := verif.Choice("outcome", 3)
	var wOK, wNil, wDone bool
	verif.Spawn("w", func() {
		l, granted := q.Acquire(context.Background())
		wOK, wNil, wDone = granted, l == nil, true
	})
	verif.Spawn("r", func() { verifComplete(held, outcome) })
	verif.Parallel()
	verif.Assert(tag+"-waiter-returns", wDone && !verif.Blocked("w"))
	verif.Assert(tag+"-listener-iff-ok", wOK == !wNil)
	owned := 0
	if wOK {
		owned = 1
	}
	verif.Assert(tag+"-refused-holds-no-capacity", st.GetBusyCount() == owned)
	verif.Assert(tag+"-gauge-is-tokens-owned", *inner.inFlight == int64(owned))
	verif.Assert(tag+"-backlog-empty-after-return", q.backlog.len() == 0 && q.backlog.list.Len() == 0)
	verif.Reach("end")
}

// VerifC02_Queue_GiveUpRace
//
//verif:harness property=C02 theory=bv tier=quick unwind=3 unwindcut=1 clock=frozen maxpaths=30000
func VerifC02_Queue_GiveUpRace() { verifGiveUpRace("c02") }

// VerifC12_Queue_GiveUpRace
//
//verif:harness property=C12 theory=bv tier=quick unwind=3 unwindcut=1 clock=frozen maxpaths=30000
func VerifC12_Queue_GiveUpRace() { verifGiveUpRace("c12") }

// verifCancelRace: limit 1 held by R since setup; caller W calls Acquire with a context that the
// environment cancels at an arbitrary instant (or never); R completes with an arbitrary outcome; all
// interleavings, timers off (the only ways out of the wait are the wake-up and the cancellation).
// At quiescence, whenever W has returned:
//
//	a listener iff ok; a refused W holds no capacity: strategy busy and the limiter gauge equal the
//	number of tokens owned by a caller (R's is completed, so 1 iff W was granted).
//
// A W that is still blocked (lost wake-up without cancellation) is C10's subject, not asserted here.
func verifCancelRace(kind int) {
	inner, st := verifFullLimiter()
	var lim core.Limiter
	switch kind {
	case 0:
		lim = NewBlockingLimiter(inner, 0, nil)
	case 1:
		lim = NewDeadlineLimiter(inner, verif.TimeAt(1<<60), nil)
	default:
		lim = NewQueueBlockingLimiterFromConfig(inner, QueueLimiterConfig{Ordering: OrderingFIFO, MaxBacklogSize: 10, MaxBacklogTimeout: time.Hour, BacklogEvictDoneCtx: true})
	}
	held, ok := lim.Acquire(context.Background())
	verif.Assert("setup-holds-the-only-token", ok && st.GetBusyCount() == 1)
	outcome := verif.Choice("outcome", 3)
	ctx := verif.CancelCtxEvent("w")
	var wOK, wNil, wDone bool
	verif.Spawn("w", func() {
		l, granted := lim.Acquire(ctx)
		wOK, wNil, wDone = granted, l == nil, true
	})
	verif.Spawn("r", func() { verifComplete(held, outcome) })
	verif.Parallel()
	if ctx.Err() != nil {
		// C13: a cancelled caller does not stay blocked (timers are off: cancellation alone must end the wait)
		verif.Assert("cancelrace-cancelled-caller-not-blocked", wDone && !verif.Blocked("w"))
		verif.Reach("cancelled")
	}
	if wDone {
		verif.Assert("cancelrace-listener-iff-ok", wOK == !wNil)
		owned := 0
		if wOK {
			owned = 1
		}
		verif.Class("w_refused", !wOK)
		verif.Assert("cancelrace-refused-holds-no-capacity", st.GetBusyCount() == owned)
		verif.Assert("cancelrace-gauge-is-tokens-owned", *inner.inFlight == int64(owned))
		verif.Reach("w-returned")
	}
	verif.Reach("end")
}

// VerifC02_Blocking_CancelRace
//
//verif:harness property=C02 theory=bv tier=quick timers=off unwind=3 unwind_thorough=5 unwindcut=1 clock=frozen maxpaths=30000
func VerifC02_Blocking_CancelRace() { verifCancelRace(0) }

// VerifC02_Deadline_CancelRace
//
//verif:harness property=C02 theory=bv tier=quick timers=off unwind=3 unwind_thorough=5 unwindcut=1 clock=frozen maxpaths=30000
func VerifC02_Deadline_CancelRace() { verifCancelRace(1) }

// VerifC02_Queue_CancelRace
//
//verif:harness property=C02 theory=bv tier=quick timers=off unwind=3 unwind_thorough=5 unwindcut=1 clock=frozen maxpaths=30000
func VerifC02_Queue_CancelRace() { verifCancelRace(2) }

// VerifC13_Blocking_CancelRace
//
//verif:harness property=C13 theory=bv tier=quick timers=off unwind=3 unwind_thorough=5 unwindcut=1 clock=frozen maxpaths=30000
func VerifC13_Blocking_CancelRace() { verifCancelRace(0) }

// VerifC13_Deadline_CancelRace
//
//verif:harness property=C13 theory=bv tier=quick timers=off unwind=3 unwind_thorough=5 unwindcut=1 clock=frozen maxpaths=30000
func VerifC13_Deadline_CancelRace() { verifCancelRace(1) }

// VerifC13_Queue_CancelRace
//
//verif:harness property=C13 theory=bv tier=quick timers=off unwind=3 unwind_thorough=5 unwindcut=1 clock=frozen maxpaths=30000
func VerifC13_Queue_CancelRace() { verifCancelRace(2) }

// VerifC12_Conc_BoundTwoArrivals (event-order): limit 1 held, backlog bound 1, two callers arrive
// concurrently (no release, timers off): at quiescence at most one of them is blocked in the backlog
// - the other one was refused at once - and the backlog length equals the number of blocked callers.
//
//verif:harness property=C12 theory=bv tier=quick timers=off unwind=3 unwindcut=1 clock=frozen maxpaths=30000
func VerifC12_Conc_BoundTwoArrivals() {
	inner, _ := verifFullLimiter()
	ord := []QueueOrdering{OrderingFIFO, OrderingLIFO}[verif.Choice("ordering", 2)]
	lim := NewQueueBlockingLimiterFromConfig(inner, QueueLimiterConfig{Ordering: ord, MaxBacklogSize: 1, MaxBacklogTimeout: time.Hour})
	_, ok := lim.Acquire(context.Background())
	verif.Assert("setup-holds-the-only-token", ok)
	verif.Spawn("a", func() { lim.Acquire(context.Background()) })
	verif.Spawn("b", func() { lim.Acquire(context.Background()) })
	verif.Parallel()
	nBlocked := verif.B2I(verif.Blocked("a")) + verif.B2I(verif.Blocked("b"))
	verif.Class("both_callers_blocked", nBlocked == 2)
	verif.Assert("backlog-bound-holds-under-concurrent-arrivals", nBlocked <= 1)
	verif.Assert("backlog-length-is-blocked-callers", int(lim.backlog.len()) == nBlocked)
	verif.Reach("end")
}

// VerifC12_Conc_GrantedCallerHasLeftBacklog (event-order): one caller parked (arrival fixed before the
// release), the holder completes: at the instant the caller's Acquire returns granted - checked
// inside the caller's thread, under every interleaving with the rest of the releaser's unblock - the
// backlog no longer contains it (the reported size is 0), and at quiescence the queue_size gauge read
// through the registry equals the real number of elements.
//
//verif:harness property=C12 theory=bv tier=quick timers=off unwind=3 unwindcut=1 clock=frozen maxpaths=30000
func VerifC12_Conc_GrantedCallerHasLeftBacklog() {
	inner, _ := verifFullLimiter()
	reg := &recRegistry{}
	ord := []QueueOrdering{OrderingFIFO, OrderingLIFO}[verif.Choice("ordering", 2)]
	lim := NewQueueBlockingLimiterFromConfig(inner, QueueLimiterConfig{Ordering: ord, MaxBacklogSize: 10, MaxBacklogTimeout: time.Hour, MetricRegistry: reg})
	held, ok := lim.Acquire(context.Background())
	verif.Assert("setup-holds-the-only-token", ok)
	verif.SpawnAfter("w", func() {
		l, granted := lim.Acquire(context.Background())
		if granted && l != nil {
			verif.Assert("granted-caller-has-left-the-backlog-on-return", lim.backlog.len() == 0)
		}
	})
	verif.SpawnAfter("r", func() { held.OnSuccess() }, "w")
	verif.Parallel()
	size, okg := reg.gauges[core.MetricQueueSize]()
	verif.Assert("queue-size-gauge-is-real-length", okg && size == float64(lim.backlog.list.Len()))
	verif.Reach("end")
}

// VerifC20_Queue_GaugeAfterGiveUpRace (event-order): the queue_size gauge (read through a recording
// registry, as a poller would) reports the real backlog length after a give-up has raced with a
// hand-off: the waiter's own eviction and the releaser's eviction of the same element together
// count once.
//
//verif:harness property=C20 theory=bv tier=quick unwind=3 unwindcut=1 clock=frozen maxpaths=30000
func VerifC20_Queue_GaugeAfterGiveUpRace() {
	inner, _ := verifFullLimiter()
	reg := &recRegistry{}
	q := NewQueueBlockingLimiterFromConfig(inner, QueueLimiterConfig{Ordering: OrderingFIFO, MaxBacklogSize: 10, MaxBacklogTimeout: time.Second, MetricRegistry: reg})
	held, ok := q.Acquire(context.Background())
	verif.Assert("setup-holds-the-only-token", ok)
	verif.Spawn("w", func() { q.Acquire(context.Background()) })
	verif.Spawn("r", func() { held.OnIgnore() })
	verif.Parallel()
	size, okg := reg.gauges[core.MetricQueueSize]()
	limit, okl := reg.gauges[core.MetricQueueLimit]()
	verif.Assert("queue-size-gauge-is-real-length-after-race", okg && size == float64(q.backlog.list.Len()))
	verif.Assert("queue-limit-gauge-is-bound", okl && limit == 10)
	verif.Reach("end")
}
