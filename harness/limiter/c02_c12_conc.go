//go:build verif

package limiter

import (
	"context"
	"time"

	verif "github.com/platinummonkey/go-concurrency-limits/zz_verifrt"
)

// verifGiveUpRace: the queue limiter over a full limiter of limit 1 (held by R since setup), one
// caller W that finds the limit reached and waits in the backlog WITH its backlog timer armed (the
// timer may fire at any moment: the give-up can race with the hand-off at every point), and the
// holder R completing with an arbitrary outcome, all interleavings.  At quiescence:
//   C02: W returned a listener iff ok; a W that was refused holds no capacity (strategy busy and the
//        limiter gauge equal the tokens actually owned by a caller), nothing is left in flight;
//   C12: the backlog is empty once W has returned (granted or timed out) and its reported size is 0.
func verifGiveUpRace(tag string) {
	inner, st := verifFullLimiter()
	q := NewQueueBlockingLimiterFromConfig(inner, QueueLimiterConfig{Ordering: OrderingFIFO, MaxBacklogSize: 10, MaxBacklogTimeout: time.Second})
	held, ok := q.Acquire(context.Background())
	verif.Assert(tag+"-setup-holds-the-only-token", ok && st.GetBusyCount() == 1)
	outcome := verif.Choice("outcome", 3)
	var wOK, wNil, wDone bool
	verif.Spawn("w", func() {
		l, granted := q.Acquire(context.Background())
		wOK, wNil, wDone = granted, l == nil, true
	})
	verif.Spawn("r", func() { verifComplete(held, outcome) })
	verif.Parallel()
	verif.Assert(tag+"-waiter-returns", wDone && !verif.Blocked("w"))
	verif.Assert(tag+"-listener-iff-ok", wOK == !wNil)
	owned := 0
	if wOK {
		owned = 1
	}
	verif.Assert(tag+"-refused-holds-no-capacity", st.GetBusyCount() == owned)
	verif.Assert(tag+"-gauge-is-tokens-owned", *inner.inFlight == int64(owned))
	verif.Assert(tag+"-backlog-empty-after-return", q.backlog.len() == 0 && q.backlog.list.Len() == 0)
	verif.Reach("end")
}

// VerifC02_Queue_GiveUpRace
//
//verif:harness property=C02 theory=bv tier=quick unwind=3 unwindcut=1 clock=frozen maxpaths=30000
func VerifC02_Queue_GiveUpRace() { verifGiveUpRace("c02") }

// VerifC12_Queue_GiveUpRace
//
//verif:harness property=C12 theory=bv tier=quick unwind=3 unwindcut=1 clock=frozen maxpaths=30000
func VerifC12_Queue_GiveUpRace() { verifGiveUpRace("c12") }
