//go:build verif

package limiter

import (
	"math"

	"github.com/platinummonkey/go-concurrency-limits/measurements"
	verif "github.com/platinummonkey/go-concurrency-limits/zz_verifrt"
)

// verifCompletion: one completion (outcome 0 success / 1 ignore / 2 dropped) of a token that was
// acquired at an arbitrary earlier instant with an arbitrary in-flight snapshot, on a DefaultLimiter
// in an arbitrary window state, under a clock stub returning arbitrary non-decreasing instants.
// Checks the window fold, the update rule (iff), the arguments handed to the algorithm, the reset
// and the next update time.
func verifCompletion(outcome int) {
	d := &recLimit{est: 10}
	st := &recStrategy{grant: true}
	l := verifLimiterConfig(d, st)
	verifLimiterState(l)
	setBefore := st.setCalls
	tok, _ := st.TryAcquire(nil)
	start := verif.Int64("start")
	snap := verif.Int64("listener.nextUpdateSnapshot")
	curMax := verif.Int64("listener.inflightAtAcquire")
	verif.Assume(start >= 0 && start < 1<<60 && snap >= 0 && snap <= l.nextUpdateTime && curMax >= 1 && curMax < 1<<31)
	verif.SetNow(start)
	lst := &DefaultListener{currentMaxInFlight: curMax, inFlight: l.inFlight, token: tok, startTime: start,
		minRTTThreshold: l.minRTTThreshold, limiter: l, nextUpdateTime: snap}
	_, oMin, oSum, oMax, oCnt, oDrop := measurements.VerifWindowFields(l.sample)
	oNext := l.nextUpdateTime
	gauge := *l.inFlight
	switch outcome {
	case 0:
		lst.OnSuccess()
	case 1:
		lst.OnIgnore()
	default:
		lst.OnDropped()
	}
	// the clock reading the listener used as the completion instant: success reads the clock first
	// (then the window stamps itself); a drop stamps the window first and reads the end time second
	var end int64
	switch outcome {
	case 0:
		end = verif.ClockReading(1)
	case 2:
		// the last reading of the clock is the end time handed to updateLimit (a dropped sample that
		// is folded into the window stamps the window first, which is an earlier reading)
		end = verif.ClockReading(verif.ClockReadings())
	default:
		end = start
	}
	rtt := end - start
	verif.Class("rtt_zero", outcome == 0 && rtt == 0)
	verif.Assert("completion-gauge-released", *l.inFlight == gauge-1)
	verif.Assert("completion-token-released-once", st.releases == 1)
	_, nMin, nSum, nMax, nCnt, nDrop := measurements.VerifWindowFields(l.sample)
	qualifies := outcome == 2 || (outcome == 0 && rtt >= l.minRTTThreshold)
	if !qualifies {
		verif.Assert("ignored-leaves-no-trace", nMin == oMin && nSum == oSum && nMax == oMax && nCnt == oCnt && nDrop == oDrop && l.nextUpdateTime == oNext && d.samples == 0 && st.setCalls == setBefore)
		verif.Reach("not-qualifying")
		return
	}
	// the fold of the old window with this completion
	fMin, fSum, fMax, fCnt, fDrop := oMin, oSum, oMax, oCnt, oDrop
	if outcome == 0 {
		if rtt < fMin {
			fMin = rtt
		}
		fSum += rtt
		fCnt++
	} else {
		fDrop = true
	}
	if int(curMax) > fMax {
		fMax = int(curMax)
	}
	ready := fMin < math.MaxInt64 && fCnt > l.windowSize
	// for a drop the update uses a later clock reading than the one stored in the window
	updated := d.samples > 0
	verif.Assert("update-at-most-once", d.samples <= 1)
	if updated {
		verif.Assert("update-only-after-period", end > oNext)
		verif.Assert("update-only-ready-window", ready)
		verif.Assert("update-args-are-the-fold", d.rtt == fMin && d.inflight == fMax && d.drop == fDrop)
		verif.Assert("update-resets-window", nCnt == 0 && nMin == math.MaxInt64 && nSum == 0 && nMax == 0 && !nDrop)
		w := 2 * fMin
		if w < l.minWindowTime {
			w = l.minWindowTime
		}
		if w > l.maxWindowTime {
			w = l.maxWindowTime
		}
		verif.Assert("update-next-period", l.nextUpdateTime == end+w)
		verif.Assert("update-enforces-estimate", st.setCalls == setBefore+1 && st.limit == d.est)
		verif.Reach("updated")
	} else {
		verif.Assert("no-update-keeps-fold", nMin == fMin && nSum == fSum && nMax == fMax && nCnt == fCnt && nDrop == fDrop && l.nextUpdateTime == oNext && st.setCalls == setBefore)
		verif.Assert("no-update-only-if-not-due", !(end > oNext && end > snap && ready))
		verif.Reach("not-updated")
	}
}

// VerifC09_Default_Success
//
//verif:harness property=C09 theory=bv tier=quick replay=engine
func VerifC09_Default_Success() { verifCompletion(0) }

// VerifC09_Default_Ignore
//
//verif:harness property=C09 theory=bv tier=quick replay=engine
func VerifC09_Default_Ignore() { verifCompletion(1) }

// VerifC09_Default_Dropped
//
//verif:harness property=C09 theory=bv tier=quick replay=engine
func VerifC09_Default_Dropped() { verifCompletion(2) }
