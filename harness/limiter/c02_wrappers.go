//go:build verif

package limiter

import (
	"time"

	"github.com/platinummonkey/go-concurrency-limits/core"
	verif "github.com/platinummonkey/go-concurrency-limits/zz_verifrt"
)

// verifWrapperAcquire: one Acquire through a blocking wrapper (kind 0 blocking with an arbitrary
// timeout, 1 deadline with an arbitrary deadline, 2 queue FIFO/LIFO with arbitrary backlog timeout)
// over a recording delegate that grants or refuses each attempt arbitrarily, the caller's context
// cancelled at an arbitrary instant (or never), the clock FREE (every reading is an arbitrary later
// instant: the deadline / timeout may go by between any two statements of the wrapper), nobody ever
// signalling.  When the call returns:
//
//	a listener iff ok; every listener the delegate granted during the call is either the one handed
//	to the caller or has been completed - a call that reports failure (timeout, deadline, cancellation)
//	holds no capacity;  completing the returned listener completes the delegate's exactly once.
func verifWrapperAcquire(kind int) {
	d := &recLimiter{}
	var lim core.Limiter
	switch kind {
	case 0:
		to := verif.Int64("timeout")
		verif.Assume(to >= 0 && to < 1<<60)
		lim = NewBlockingLimiter(d, time.Duration(to), nil)
	case 1:
		dl := verif.Int64("deadline")
		verif.Assume(dl >= 0 && dl < 1<<60)
		lim = NewDeadlineLimiter(d, verif.TimeAt(dl), nil)
	default:
		to := verif.Int64("timeout")
		verif.Assume(to >= 1 && to < 1<<60)
		ord := []QueueOrdering{OrderingFIFO, OrderingLIFO}[verif.Choice("ordering", 2)]
		lim = NewQueueBlockingLimiterFromConfig(d, QueueLimiterConfig{Ordering: ord, MaxBacklogSize: 10, MaxBacklogTimeout: time.Duration(to), BacklogEvictDoneCtx: verif.Bool("evictDoneCtx")})
	}
	cancelAt := verif.Int64("cancelAt")
	verif.Assume(cancelAt >= 0)
	ctx := verif.CancelCtxAt(cancelAt)
	lst, ok := lim.Acquire(ctx)
	verif.Assert("wrapper-listener-iff-ok", ok == (lst != nil))
	owned := 0
	if ok {
		owned = 1
	}
	verif.Assert("wrapper-failure-holds-no-capacity", d.outstanding() == owned)
	if ok {
		verifComplete(lst, verif.Choice("outcome", 3))
		verif.Assert("wrapper-completion-returns-the-unit", d.outstanding() == 0)
		verif.Reach("granted")
	} else {
		verif.Reach("refused")
	}
}

// VerifC02_Blocking_FailureHoldsNothing
//
//verif:harness property=C02 theory=bv tier=quick replay=engine unwind=3 unwind_thorough=5 unwindcut=1 clock=free
func VerifC02_Blocking_FailureHoldsNothing() { verifWrapperAcquire(0) }

// VerifC02_Deadline_FailureHoldsNothing
//
//verif:harness property=C02 theory=bv tier=quick replay=engine unwind=3 unwind_thorough=5 unwindcut=1 clock=free
func VerifC02_Deadline_FailureHoldsNothing() { verifWrapperAcquire(1) }

// VerifC02_Queue_FailureHoldsNothing
//
//verif:harness property=C02 theory=bv tier=quick replay=engine unwind=3 unwind_thorough=5 unwindcut=1 clock=free
func VerifC02_Queue_FailureHoldsNothing() { verifWrapperAcquire(2) }
