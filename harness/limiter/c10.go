//go:build verif

package limiter

import (
	"context"
	"time"

	"github.com/platinummonkey/go-concurrency-limits/core"
	"github.com/platinummonkey/go-concurrency-limits/limit"
	"github.com/platinummonkey/go-concurrency-limits/strategy"
	verif "github.com/platinummonkey/go-concurrency-limits/zz_verifrt"
)

// verifFullLimiter: a DefaultLimiter with a precise strategy of limit 1 over a fixed limit.
func verifFullLimiter() (*DefaultLimiter, *strategy.PreciseStrategy) {
	st := strategy.NewPreciseStrategy(1)
	l, err := NewDefaultLimiter(limit.NewFixedLimit("f", 1, nil), 1000000000, 1000000000, 1000000000, 100, st, limit.NoopLimitLogger{}, core.EmptyMetricRegistryInstance)
	verif.Assert("limiter-constructed", err == nil)
	return l, st
}

func verifComplete(l core.Listener, outcome int) {
	switch outcome {
	case 0:
		l.OnSuccess()
	case 1:
		l.OnIgnore()
	default:
		l.OnDropped()
	}
}

// verifC10: limit 1 held by R since setup; waiter W calls Acquire (finds the limit reached unless R
// has already released); R completes with an arbitrary outcome.  Timers are disabled in the
// environment: the property is "without needing any further release, timeout or cancellation".
// Quiescence assertion: NOT (capacity is free AND W is blocked); and if W returned it was granted.
// Schedule classes (classifier predicates) separate the lost wake-up windows.
func verifC10(kind int) {
	inner, st := verifFullLimiter()
	var lim core.Limiter
	switch kind {
	case 0:
		lim = NewBlockingLimiter(inner, 0, nil)
	case 1:
		lim = NewDeadlineLimiter(inner, verif.TimeAt(1<<60), nil)
	default:
		lim = NewQueueBlockingLimiterFromConfig(inner, QueueLimiterConfig{Ordering: OrderingFIFO, MaxBacklogSize: 10, MaxBacklogTimeout: time.Hour})
	}
	held, ok := lim.Acquire(context.Background())
	verif.Assert("setup-holds-the-only-token", ok && st.GetBusyCount() == 1)
	outcome := verif.Choice("outcome", 3)
	var wOK, wDone bool
	verif.Spawn("w", func() {
		l, ok := lim.Acquire(context.Background())
		wOK, wDone = ok && l != nil, true
	})
	verif.Spawn("r", func() { verifComplete(held, outcome) })
	verif.Parallel()
	blocked := verif.Blocked("w")
	busy := st.GetBusyCount()
	verif.Class("waiter_blocked_with_capacity_free", blocked && busy < 1)
	verif.Assert("no-lost-wakeup", !(blocked && busy < 1))
	if wDone {
		verif.Assert("served-not-refused", wOK)
		verif.Assert("served-holds-the-token", busy == 1)
	}
	verif.Reach("end")
}

// VerifC10_Blocking
//
//verif:harness property=C10 theory=bv tier=quick timers=off unwind=3 unwind_thorough=5 unwindcut=1 clock=frozen
func VerifC10_Blocking() { verifC10(0) }

// VerifC10_Deadline
//
//verif:harness property=C10 theory=bv tier=quick timers=off unwind=3 unwind_thorough=5 unwindcut=1 clock=frozen
func VerifC10_Deadline() { verifC10(1) }

// VerifC10_Queue
//
//verif:harness property=C10 theory=bv tier=quick timers=off unwind=3 unwind_thorough=5 unwindcut=1 clock=frozen
func VerifC10_Queue() { verifC10(2) }
