//go:build verif

package limiter

import (
	"context"
	"time"

	"github.com/platinummonkey/go-concurrency-limits/core"
	"github.com/platinummonkey/go-concurrency-limits/limit"
	"github.com/platinummonkey/go-concurrency-limits/strategy"
	verif "github.com/platinummonkey/go-concurrency-limits/zz_verifrt"
)

// verifFullLimiter: a DefaultLimiter with a precise strategy of limit 1 over a fixed limit.
func verifFullLimiter() (*DefaultLimiter, *strategy.PreciseStrategy) { return verifFullLimiterN(1) }

// verifFullLimiterN: the same with limit n.
func verifFullLimiterN(n int) (*DefaultLimiter, *strategy.PreciseStrategy) {
	st := strategy.NewPreciseStrategy(n)
	l, err := NewDefaultLimiter(limit.NewFixedLimit("f", n, nil), 1000000000, 1000000000, 1000000000, 100, st, limit.NoopLimitLogger{}, core.EmptyMetricRegistryInstance)
	verif.Assert("limiter-constructed", err == nil)
	return l, st
}

func verifComplete(l core.Listener, outcome int) {
	switch outcome {
	case 0:
		l.OnSuccess()
	case 1:
		l.OnIgnore()
	default:
		l.OnDropped()
	}
}

// verifC10: limit 1 held by R since setup; waiter W calls Acquire (finds the limit reached unless R
// has already released); R completes with an arbitrary outcome.  Timers are disabled in the
// environment: the property is "without needing any further release, timeout or cancellation".
// Quiescence assertion: NOT (capacity is free AND W is blocked); and if W returned it was granted.
// Schedule classes (classifier predicates) separate the lost wake-up windows.
func verifC10(kind int) {
	inner, st := verifFullLimiter()
	var lim core.Limiter
	switch kind {
	case 0:
		lim = NewBlockingLimiter(inner, 0, nil)
	case 1:
		lim = NewDeadlineLimiter(inner, verif.TimeAt(1<<60), nil)
	default:
		lim = NewQueueBlockingLimiterFromConfig(inner, QueueLimiterConfig{Ordering: OrderingFIFO, MaxBacklogSize: 10, MaxBacklogTimeout: time.Hour})
	}
	held, ok := lim.Acquire(context.Background())
	verif.Assert("setup-holds-the-only-token", ok && st.GetBusyCount() == 1)
	outcome := verif.Choice("outcome", 3)
	var wOK, wDone bool
	verif.Spawn("w", func() {
		l, ok := lim.Acquire(context.Background())
		wOK, wDone = ok && l != nil, true
	})
	verif.Spawn("r", func() { verifComplete(held, outcome) })
	verif.Parallel()
	blocked := verif.Blocked("w")
	busy := st.GetBusyCount()
	verif.Class("waiter_blocked_with_capacity_free", blocked && busy < 1)
	verif.Assert("no-lost-wakeup", !(blocked && busy < 1))
	if wDone {
		verif.Assert("served-not-refused", wOK)
		verif.Assert("served-holds-the-token", busy == 1)
	}
	verif.Reach("end")
}

// VerifC10_Blocking
//
//verif:harness property=C10 theory=bv tier=quick timers=off unwind=3 unwind_thorough=5 unwindcut=1 clock=frozen
func VerifC10_Blocking() { verifC10(0) }

// VerifC10_Deadline
//
//verif:harness property=C10 theory=bv tier=quick timers=off unwind=3 unwind_thorough=5 unwindcut=1 clock=frozen
func VerifC10_Deadline() { verifC10(1) }

// VerifC10_Queue
//
//verif:harness property=C10 theory=bv tier=quick timers=off unwind=3 unwind_thorough=5 unwindcut=1 clock=frozen
func VerifC10_Queue() { verifC10(2) }

// verifQueueWaiters: limit 1 held since setup; n waiters arrive one after the other (each one only
// once the previous one is parked: verif.SpawnAfter), then the holder completes (only once every
// waiter is parked, so the arrival/release races of the single-waiter harnesses - known findings -
// are excluded by construction).  Waiter 0's context is cancelled by the environment at any moment
// or never (cancelFirst); timers are disabled in the environment.  At quiescence:
// observed (asserted by the harnesses of the respective properties):
//   - lost: a waiter is blocked while capacity is free (C10),
//   - inOrder: the waiter that was served is the next in line among those that had not given up (C11),
//   - backlogIsBlocked: the backlog length equals the number of blocked waiters (C12),
//   - busyIsServed: the strategy's busy count equals the tokens owned by waiters (C02).
type verifQueueObs struct {
	lost, busyIsServed, backlogIsBlocked, inOrder bool
}

func verifQueueWaiters(n int, ordering QueueOrdering, evictDone bool, cancelFirst bool) verifQueueObs {
	inner, st := verifFullLimiter()
	lim := NewQueueBlockingLimiterFromConfig(inner, QueueLimiterConfig{Ordering: ordering, MaxBacklogSize: 10, MaxBacklogTimeout: time.Hour, BacklogEvictDoneCtx: evictDone})
	held, ok := lim.Acquire(context.Background())
	verif.Assert("setup-holds-the-only-token", ok && st.GetBusyCount() == 1)
	outcome := verif.Choice("outcome", 3)
	names := []string{"w0", "w1", "w2"}[:n]
	var wOK, wDone [3]bool
	for i := 0; i < n; i++ {
		i := i
		ctx := context.Background()
		if i == 0 && cancelFirst {
			ctx = verif.CancelCtxEvent("w0")
		}
		verif.SpawnAfter(names[i], func() {
			l, ok := lim.Acquire(ctx)
			wOK[i], wDone[i] = ok && l != nil, true
		}, names[:i]...)
	}
	verif.SpawnAfter("r", func() { verifComplete(held, outcome) }, names...)
	verif.Parallel()
	busy := st.GetBusyCount()
	nBlocked, nServed := 0, 0
	var blocked, served [3]bool
	for i := 0; i < n; i++ {
		blocked[i] = verif.Blocked(names[i])
		served[i] = verif.And(wDone[i], wOK[i])
		nBlocked += verif.B2I(blocked[i])
		nServed += verif.B2I(served[i])
	}
	lost := verif.And(nBlocked > 0, busy < 1)
	verif.Class("waiter_blocked_with_capacity_free", lost)
	// order: a served waiter has no still-blocked waiter ahead of it
	inOrder := true
	for i := 0; i < n; i++ {
		for j := 0; j < n; j++ {
			ahead := j < i // FIFO: the older one is ahead
			if ordering == OrderingLIFO {
				ahead = j > i
			}
			if ahead {
				inOrder = verif.And(inOrder, verif.Not(verif.And(served[i], blocked[j])))
			}
		}
	}
	return verifQueueObs{lost: lost, busyIsServed: busy == nServed, backlogIsBlocked: int(lim.backlog.len()) == nBlocked, inOrder: inOrder}
}

// VerifC10_Queue_TwoParked: two parked waiters (FIFO and LIFO), the first one's context cancelled at
// any moment (cancelled contexts do not leave the backlog by default): the release serves one.
//
//verif:harness property=C10 theory=bv tier=quick timers=off unwind=3 unwindcut=1 clock=frozen
func VerifC10_Queue_TwoParked() {
	ord := []QueueOrdering{OrderingFIFO, OrderingLIFO}[verif.Choice("ordering", 2)]
	o := verifQueueWaiters(2, ord, false, true)
	verif.Assert("no-lost-handoff", verif.Not(o.lost))
	verif.Assert("two-parked-busy-is-tokens-owned", o.busyIsServed)
	verif.Assert("two-parked-served-in-configured-order", o.inOrder)
	verif.Reach("end")
}

// VerifC10_Queue_TwoParkedTwoReleases: limit 2, both tokens held, two callers parked (arrival order
// fixed), then BOTH holders complete concurrently (two releasing threads racing inside unblock): at
// quiescence nobody is blocked while capacity is free - every release hands its unit to a waiter.
//
//verif:harness property=C10 theory=bv tier=quick timers=off unwind=3 unwindcut=1 clock=frozen maxpaths=60000
func VerifC10_Queue_TwoParkedTwoReleases() {
	inner, st := verifFullLimiterN(2)
	ord := []QueueOrdering{OrderingFIFO, OrderingLIFO}[verif.Choice("ordering", 2)]
	lim := NewQueueBlockingLimiterFromConfig(inner, QueueLimiterConfig{Ordering: ord, MaxBacklogSize: 10, MaxBacklogTimeout: time.Hour})
	h1, ok1 := lim.Acquire(context.Background())
	h2, ok2 := lim.Acquire(context.Background())
	verif.Assert("setup-holds-both-tokens", ok1 && ok2 && st.GetBusyCount() == 2)
	var wOK, wDone [2]bool
	verif.SpawnAfter("w0", func() {
		l, ok := lim.Acquire(context.Background())
		wOK[0], wDone[0] = ok && l != nil, true
	})
	verif.SpawnAfter("w1", func() {
		l, ok := lim.Acquire(context.Background())
		wOK[1], wDone[1] = ok && l != nil, true
	}, "w0")
	verif.SpawnAfter("r1", func() { h1.OnSuccess() }, "w0", "w1")
	verif.SpawnAfter("r2", func() { h2.OnSuccess() }, "w0", "w1")
	verif.Parallel()
	busy := st.GetBusyCount()
	nBlocked := verif.B2I(verif.Blocked("w0")) + verif.B2I(verif.Blocked("w1"))
	nServed := verif.B2I(verif.And(wDone[0], wOK[0])) + verif.B2I(verif.And(wDone[1], wOK[1]))
	verif.Assert("two-releases-no-lost-handoff", verif.Not(verif.And(nBlocked > 0, busy < 2)))
	verif.Assert("two-releases-busy-is-tokens-owned", busy == nServed)
	verif.Reach("end")
}

// verifWakeUpChain: the blocking (kind 0) / deadline (kind 1) limiter, limit 1 held by H.  Caller A
// blocks; H completes once A is parked, so A is woken and granted on its retry; caller B arrives only
// after A has RETURNED with the token (verif.SpawnAfterDone) and blocks behind it; A's token is
// completed once B is parked.  Every listener handed out - also the one a caller obtains on the retry
// after a wake-up - wakes the next waiter when it completes: at quiescence B is not blocked while
// capacity is free.  (All arrivals are ordered, so the pinned tree's lost wake-up window - a
// Broadcast before the helper goroutine's Wait ticket - cannot occur in this harness.)
func verifWakeUpChain(kind int) {
	inner, st := verifFullLimiter()
	var lim core.Limiter
	if kind == 0 {
		lim = NewBlockingLimiter(inner, 0, nil)
	} else {
		lim = NewDeadlineLimiter(inner, verif.TimeAt(1<<60), nil)
	}
	held, ok := lim.Acquire(context.Background())
	verif.Assert("setup-holds-the-only-token", ok && st.GetBusyCount() == 1)
	var aL core.Listener
	var aOK, bOK bool
	verif.SpawnAfter("a", func() {
		l, ok := lim.Acquire(context.Background())
		if ok && l != nil {
			aL, aOK = l, true
		}
	})
	verif.SpawnAfter("h", func() { held.OnSuccess() }, "a")
	verif.SpawnAfterDone("b", func() {
		l, ok := lim.Acquire(context.Background())
		bOK = ok && l != nil
	}, "a")
	verif.SpawnAfter("ac", func() {
		if aOK {
			aL.OnSuccess()
		}
	}, "b")
	verif.Parallel()
	busy := st.GetBusyCount()
	verif.Assert("chain-next-waiter-woken", verif.Not(verif.And(verif.Blocked("b"), busy < 1)))
	verif.Assert("chain-busy-is-tokens-owned", verif.Implies(verif.Not(verif.Blocked("b")), busy == verif.B2I(bOK)))
	verif.Reach("end")
}

// VerifC10_Blocking_WakeUpChain
//
//verif:harness property=C10 theory=bv tier=quick timers=off unwind=3 unwindcut=1 clock=frozen maxpaths=60000
func VerifC10_Blocking_WakeUpChain() { verifWakeUpChain(0) }

// VerifC10_Deadline_WakeUpChain
//
//verif:harness property=C10 theory=bv tier=quick timers=off unwind=3 unwindcut=1 clock=frozen maxpaths=60000
func VerifC10_Deadline_WakeUpChain() { verifWakeUpChain(1) }

// verifReleaseWithoutCapacity: limit 2 with both tokens held, then the limit shrinks to 1 while both
// are outstanding (what an adaptive limit does under load).  Caller W parks; the first completion
// (once W is parked) frees NO capacity (in flight 2 -> 1, limit 1): W must stay a waiter the limiter
// still knows about; the second completion (after the first has finished) frees capacity: W is
// granted by it - at quiescence W is not blocked while capacity is free, and a served W owns the token.
func verifReleaseWithoutCapacity(kind int) {
	inner, st := verifFullLimiterN(2)
	var lim core.Limiter
	switch kind {
	case 0:
		lim = NewBlockingLimiter(inner, 0, nil)
	case 1:
		lim = NewDeadlineLimiter(inner, verif.TimeAt(1<<60), nil)
	default:
		ord := []QueueOrdering{OrderingFIFO, OrderingLIFO}[verif.Choice("ordering", 2)]
		lim = NewQueueBlockingLimiterFromConfig(inner, QueueLimiterConfig{Ordering: ord, MaxBacklogSize: 10, MaxBacklogTimeout: time.Hour})
	}
	h1, ok1 := lim.Acquire(context.Background())
	h2, ok2 := lim.Acquire(context.Background())
	verif.Assert("setup-holds-both-tokens", ok1 && ok2 && st.GetBusyCount() == 2)
	st.SetLimit(1)
	var wOK bool
	verif.SpawnAfter("w", func() {
		l, ok := lim.Acquire(context.Background())
		wOK = ok && l != nil
	})
	verif.SpawnAfter("r1", func() { h1.OnSuccess() }, "w")
	verif.SpawnAfterDone("r2", func() { h2.OnSuccess() }, "r1")
	verif.Parallel()
	busy := st.GetBusyCount()
	verif.Assert("shrunk-limit-waiter-served-by-the-release-that-frees-capacity", verif.Not(verif.And(verif.Blocked("w"), busy < 1)))
	verif.Assert("shrunk-limit-busy-is-tokens-owned", verif.Implies(verif.Not(verif.Blocked("w")), busy == verif.B2I(wOK)))
	verif.Reach("end")
}

// VerifC10_Blocking_ReleaseWithoutCapacity
//
//verif:harness property=C10 theory=bv tier=quick timers=off unwind=4 unwindcut=1 clock=frozen maxpaths=60000
func VerifC10_Blocking_ReleaseWithoutCapacity() { verifReleaseWithoutCapacity(0) }

// VerifC10_Deadline_ReleaseWithoutCapacity
//
//verif:harness property=C10 theory=bv tier=quick timers=off unwind=4 unwindcut=1 clock=frozen maxpaths=60000
func VerifC10_Deadline_ReleaseWithoutCapacity() { verifReleaseWithoutCapacity(1) }

// VerifC10_Queue_ReleaseWithoutCapacity
//
//verif:harness property=C10 theory=bv tier=quick timers=off unwind=4 unwindcut=1 clock=frozen maxpaths=60000
func VerifC10_Queue_ReleaseWithoutCapacity() { verifReleaseWithoutCapacity(2) }
