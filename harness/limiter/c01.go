//go:build verif

package limiter

import (
	"context"

	"github.com/platinummonkey/go-concurrency-limits/core"
	"github.com/platinummonkey/go-concurrency-limits/limit"
	"github.com/platinummonkey/go-concurrency-limits/measurements"
	"github.com/platinummonkey/go-concurrency-limits/strategy"
	verif "github.com/platinummonkey/go-concurrency-limits/zz_verifrt"
)

// stubLimit: a limit algorithm whose every sample-driven update returns an arbitrary new estimate.
type stubLimit struct {
	est     int
	next    int
	samples int
}

func (r *stubLimit) EstimatedLimit() int                       { return r.est }
func (r *stubLimit) NotifyOnChange(c core.LimitChangeListener) {}
func (r *stubLimit) OnSample(start int64, rtt int64, inflight int, d bool) {
	r.samples++
	r.est = r.next
}

// verifC01Limiter: DefaultLimiter over a simple (kind 0) or precise (kind 1) strategy with limit L,
// `held` tokens outstanding (acquired during setup through the real Acquire), and a sampling window
// that is ready, so that the next qualifying completion triggers a sample-driven limit update to the
// arbitrary value L2.
func verifC01Limiter(kind int, L, L2 int, held int) (*DefaultLimiter, core.Strategy, []core.Listener, *stubLimit) {
	d := &stubLimit{est: L, next: L2}
	var st core.Strategy
	if kind == 0 {
		st = strategy.NewSimpleStrategy(L)
	} else {
		st = strategy.NewPreciseStrategy(L)
	}
	l, err := NewDefaultLimiter(d, 1, 1, 0, 10, st, limit.NoopLimitLogger{}, core.EmptyMetricRegistryInstance)
	verif.Assert("limiter-constructed", err == nil)
	var ls []core.Listener
	for i := 0; i < held; i++ {
		x, ok := l.Acquire(context.Background())
		verif.Assert("setup-acquire", ok)
		ls = append(ls, x)
	}
	l.sample = measurements.VerifWindow(-1, 5, 500, 3, 100, false)
	l.nextUpdateTime = 0
	return l, st, ls, d
}

func busyOf(st core.Strategy) int {
	switch s := st.(type) {
	case *strategy.SimpleStrategy:
		return s.GetBusyCount()
	case *strategy.PreciseStrategy:
		return s.GetBusyCount()
	}
	return -1
}

func limitOf(st core.Strategy) int {
	switch s := st.(type) {
	case *strategy.SimpleStrategy:
		return s.GetLimit()
	case *strategy.PreciseStrategy:
		return s.GetLimit()
	}
	return -1
}

// verifC01Body: two racing Acquire calls, a completion of a token held since setup (outcome:
// success / ignore / dropped -- success and dropped feed the window and trigger the sample-driven
// update to L2), all interleavings.  Limits L in {1,2,3}, one or two tokens held, L2 arbitrary >= 1.
func verifC01Body(kind int) {
	L := 1 + verif.Choice("limit", verif.Tiered(3, 5))
	held := 1 + verif.Choice("held", verif.Tiered(2, 3))
	verif.Assume(held <= L)
	L2 := verif.Int("newEstimate")
	verif.Assume(L2 >= 1 && L2 < 1<<30)
	l, st, ls, d := verifC01Limiter(kind, L, L2, held)
	outcome := verif.Choice("outcome", 3)
	hi := L
	if L2 > hi {
		hi = L2
	}
	lo := L
	if L2 < lo {
		lo = L2
	}
	var ok1, ok2 bool
	acquire := func(ok *bool) func() {
		return func() {
			lst, granted := l.Acquire(context.Background())
			*ok = granted
			verif.Assert("listener-iff-ok", (lst != nil) == granted)
		}
	}
	verif.Spawn("a1", acquire(&ok1))
	verif.Spawn("a2", acquire(&ok2))
	verif.Spawn("rel", func() {
		switch outcome {
		case 0:
			ls[0].OnSuccess()
		case 1:
			ls[0].OnIgnore()
		default:
			ls[0].OnDropped()
		}
	})
	verif.Parallel()
	out := held - 1
	if ok1 {
		out++
	}
	if ok2 {
		out++
	}
	verif.Assert("counter-is-tokens-out", busyOf(st) == out)
	verif.Assert("gauge-is-tokens-out", *l.inFlight == int64(out))
	verif.Assert("never-over-largest-limit", out <= hi || out <= held-1)
	// no request is refused while capacity is free: if a call was refused, the tokens out at the end
	// (nothing is released after the single completion) reach the smallest limit in force
	if !ok1 || !ok2 {
		verif.Assert("refused-only-when-full", out >= lo || out+1 >= lo)
	}
	if d.samples > 0 {
		verif.Assert("enforcement-follows-update", limitOf(st) == L2)
	} else {
		verif.Assert("no-update-keeps-limit", limitOf(st) == L)
	}
	verif.Reach("end")
}

// VerifC01_Default_Simple
//
//verif:harness property=C01 theory=bv tier=quick maxpaths=20000
func VerifC01_Default_Simple() { verifC01Body(0) }

// VerifC01_Default_Precise
//
//verif:harness property=C01 theory=bv tier=quick maxpaths=20000
func VerifC01_Default_Precise() { verifC01Body(1) }

// VerifC01_Default_ConcurrentAcquiresAtomic / VerifC01_Precise_ConcurrentAtomic: predictive atomicity
// analysis (engine option atomic=only): the admission decision is one atomic read-modify-write of
// the in-flight counter - for the DefaultLimiter over the simple strategy (whose load-compare-add is
// only atomic because the limiter mutex is held around it) and over the precise strategy, and for
// the precise strategy used directly: no schedule lets another thread's update of the counter fall
// between the read a decision is based on and the write that records it.
//
//verif:harness property=C01 theory=bv tier=quick race=1 atomic=only maxpasses=4 unwind=3 unwindcut=1 clock=frozen timeout=20
func VerifC01_Default_ConcurrentAcquiresAtomic() {
	kind := verif.Choice("strategy", 2)
	l, _, _, _ := verifC01Limiter(kind, 3, 3, 1)
	verif.Spawn("a1", func() { l.Acquire(context.Background()) })
	verif.Spawn("a2", func() { l.Acquire(context.Background()) })
	verif.Parallel()
	verif.Reach("end")
}

//verif:harness property=C01 theory=bv tier=quick race=1 atomic=only maxpasses=4 unwind=3 unwindcut=1 clock=frozen timeout=20
func VerifC01_Precise_ConcurrentAtomic() {
	st := strategy.NewPreciseStrategy(3)
	tok, ok := st.TryAcquire(context.Background())
	verif.Assert("setup-token", ok)
	second := verif.Choice("second", 3)
	verif.Spawn("a1", func() { st.TryAcquire(context.Background()) })
	verif.Spawn("t2", func() {
		switch second {
		case 0:
			st.TryAcquire(context.Background())
		case 1:
			tok.Release()
		default:
			st.SetLimit(2)
		}
	})
	verif.Parallel()
	verif.Reach("end")
}

// VerifC01_Default_CompletionFreesExactlyOne: the gate can only hold the limit if a completion gives
// back exactly ONE unit at the strategy (a completion that frees two lets the next acquires exceed
// the limit while the real holders are still at it): the conservation step of C02 - DefaultLimiter
// over each strategy kind from arbitrary counters, arbitrary measured RTT (also below the limiter's
// minimum RTT threshold), each of the three outcomes - registered for C01 as well.
//
//verif:harness property=C01 theory=real tier=quick replay=engine
func VerifC01_Default_CompletionFreesExactlyOne() { VerifC02_Default_Conservation() }
