//go:build verif

package limiter

import (
	"context"
	"math"

	"github.com/platinummonkey/go-concurrency-limits/core"
	"github.com/platinummonkey/go-concurrency-limits/limit"
	"github.com/platinummonkey/go-concurrency-limits/measurements"
	verif "github.com/platinummonkey/go-concurrency-limits/zz_verifrt"
)

// recLimit: recording core.Limit double; every OnSample draws an arbitrary new estimate.
type recLimit struct {
	est      int
	samples  int
	rtt      int64
	inflight int
	drop     bool
}

func (r *recLimit) EstimatedLimit() int                       { return r.est }
func (r *recLimit) NotifyOnChange(c core.LimitChangeListener) {}
func (r *recLimit) OnSample(start int64, rtt int64, inflight int, drop bool) {
	r.samples++
	r.rtt, r.inflight, r.drop = rtt, inflight, drop
	e := verif.Int("newEstimate")
	verif.Assume(e > -(1<<31) && e < 1<<31)
	r.est = e
}

// recStrategy: recording core.Strategy double.
type recStrategy struct {
	limit    int
	setCalls int
	busy     int
	grant    bool
	acquires int
	releases int
}

func (s *recStrategy) TryAcquire(ctx context.Context) (core.StrategyToken, bool) {
	s.acquires++
	if !s.grant {
		return core.NewNotAcquiredStrategyToken(s.busy), false
	}
	s.busy++
	return core.NewAcquiredStrategyToken(s.busy, func() { s.busy--; s.releases++ }), true
}
func (s *recStrategy) SetLimit(l int) { s.limit = l; s.setCalls++ }

// recListener: recording core.Listener double.
type recListener struct {
	success, ignore, dropped int
}

func (l *recListener) OnSuccess() { l.success++ }
func (l *recListener) OnIgnore()  { l.ignore++ }
func (l *recListener) OnDropped() { l.dropped++ }
func (l *recListener) total() int { return l.success + l.ignore + l.dropped }

// recLimiter: recording core.Limiter double; grants according to a script of symbolic booleans.
type recLimiter struct {
	calls     int
	grants    int
	listeners []*recListener
	alwaysNo  bool
	ctxs      []context.Context
	during    func() // runs inside Acquire (what another goroutine does while the delegate decides)
}

func (d *recLimiter) Acquire(ctx context.Context) (core.Listener, bool) {
	d.calls++
	d.ctxs = append(d.ctxs, ctx)
	if d.during != nil {
		d.during()
	}
	if d.alwaysNo || (!verifGrantAll && !verif.Bool("delegate.grant")) {
		return nil, false
	}
	d.grants++
	l := &recListener{}
	d.listeners = append(d.listeners, l)
	return l, true
}

func (d *recLimiter) outstanding() int {
	n := 0
	for _, l := range d.listeners {
		if l.total() == 0 {
			n++
		}
	}
	return n
}

// verifSymWindow: arbitrary window state reachable by folding samples with rtt >= 1.
func verifSymWindow(prefix string) *measurements.ImmutableSampleWindow {
	minRTT := verif.Int64(prefix + ".minRTT")
	sum := verif.Int64(prefix + ".sum")
	maxIF := verif.Int(prefix + ".maxInFlight")
	count := verif.Int(prefix + ".count")
	drop := verif.Bool(prefix + ".didDrop")
	verif.Assume(count >= 0 && count < 1<<30 && sum >= 0 && sum < 1<<61 && maxIF >= 0 && maxIF < 1<<31)
	verif.Assume(minRTT >= 1 && (minRTT < 1<<61 || minRTT == math.MaxInt64))
	verif.Assume((count == 0) == (minRTT == math.MaxInt64))
	verif.Assume(count != 0 || sum == 0)
	return measurements.VerifWindow(-1, minRTT, sum, maxIF, count, drop)
}

// verifLimiterConfig: a DefaultLimiter from the real constructor with symbolic valid window
// configuration over the given delegate and strategy, then an arbitrary window / next-update state.
func verifLimiterConfig(d core.Limit, s core.Strategy) *DefaultLimiter {
	minW, maxW := verif.Int64("minWindow"), verif.Int64("maxWindow")
	thr := verif.Int64("minRTTThreshold")
	ws := verif.Int("windowSize")
	verif.Assume(minW >= 1 && minW <= maxW && maxW < 1<<60 && ws >= 10 && ws < 1<<30 && thr >= 0 && thr < 1<<60)
	l, err := NewDefaultLimiter(d, minW, maxW, thr, ws, s, limit.NoopLimitLogger{}, core.EmptyMetricRegistryInstance)
	verif.Assert("limiter-constructed", err == nil && l != nil)
	return l
}

func verifLimiterState(l *DefaultLimiter) {
	l.sample = verifSymWindow("win")
	nu := verif.Int64("nextUpdate")
	verif.Assume(nu >= 0 && nu < 1<<61)
	l.nextUpdateTime = nu
	g := verif.Int64("gauge")
	verif.Assume(g >= 1 && g < 1<<31)
	*l.inFlight = g
}
