//go:build verif

// Package verif is the harness run-time of /verif.  Under the symbolic executor
// (gclverify) every function below is intercepted by name; the bodies here are the
// *native* semantics used when a solver model is replayed on the real build:
// nondeterministic inputs are read from the replay vector in $VERIF_REPLAY.
package verif

import (
	"context"
	"encoding/json"
	"fmt"
	"math"
	"os"
	"strconv"
	"testing"
	"time"
)

type rval struct {
	Kind string `json:"kind"`
	U    string `json:"u"`
}

type vector struct {
	Harness   string          `json:"harness"`
	Values    map[string]rval `json:"values"`
	Choices   []int           `json:"choices"`
	Assertion string          `json:"assertion"`
}

var (
	vec      vector
	seen     map[string]int
	choiceIx int
	reached  map[string]int
)

type assumeFailed struct{}
type assertFailed struct{ id string }

func load() {
	seen = map[string]int{}
	reached = map[string]int{}
	choiceIx = 0
	vec = vector{Values: map[string]rval{}}
	if p := os.Getenv("VERIF_REPLAY"); p != "" {
		b, err := os.ReadFile(p)
		if err == nil {
			_ = json.Unmarshal(b, &vec)
		}
	}
}

func uniq(name string) string {
	n := seen[name]
	seen[name] = n + 1
	if n == 0 {
		return name
	}
	return fmt.Sprintf("%s#%d", name, n)
}

func raw(name string) uint64 {
	if seen == nil {
		load()
	}
	v, ok := vec.Values[uniq(name)]
	if !ok {
		return 0
	}
	u, _ := strconv.ParseUint(v.U, 10, 64)
	return u
}

// Int returns an arbitrary int.
func Int(name string) int { return int(raw(name)) }

// Int64 returns an arbitrary int64.
func Int64(name string) int64 { return int64(raw(name)) }

// Int32 returns an arbitrary int32.
func Int32(name string) int32 { return int32(raw(name)) }

// Uint64 returns an arbitrary uint64.
func Uint64(name string) uint64 { return raw(name) }

// Bool returns an arbitrary bool.
func Bool(name string) bool { return raw(name) != 0 }

// Float returns an arbitrary float64 (any bit pattern; harnesses assume finiteness explicitly).
func Float(name string) float64 { return math.Float64frombits(raw(name)) }

// Choice returns an enumerated value in [0,n): the executor explores every value on a separate path.
func Choice(name string, n int) int {
	if seen == nil {
		load()
	}
	if choiceIx < len(vec.Choices) {
		c := vec.Choices[choiceIx]
		choiceIx++
		return c
	}
	return 0
}

// Time returns an arbitrary instant (unix nanoseconds >= 0 assumed by harnesses).
func Time(name string) time.Time { return time.Unix(0, int64(raw(name))) }

// Assume restricts the inputs considered.
func Assume(c bool) {
	if !c {
		panic(assumeFailed{})
	}
}

// Assert states the property; id identifies the obligation.
func Assert(id string, c bool) {
	if !c {
		panic(assertFailed{id})
	}
}

// Reach is a reachability witness: the executor fails the harness as vacuous if no path gets here.
func Reach(label string) {
	if reached != nil {
		reached[label]++
	}
}

// Class names a classifier predicate over the symbolic state; known findings are keyed by these.
func Class(name string, c bool) {}

// IsNaN reports x != x.
func IsNaN(x float64) bool { return x != x }

// Finite reports that x is neither NaN nor infinite.
func Finite(x float64) bool { return !math.IsNaN(x) && !math.IsInf(x, 0) }

// And, Or, Not, Implies, B2I: boolean combinators that do not fork the symbolic path (Go's && and ||
// are control flow in SSA: every one of them doubles the paths of a harness).
func And(bs ...bool) bool {
	for _, b := range bs {
		if !b {
			return false
		}
	}
	return true
}

// Or: see And.
func Or(bs ...bool) bool {
	for _, b := range bs {
		if b {
			return true
		}
	}
	return false
}

// Not: see And.
func Not(b bool) bool { return !b }

// Implies: see And.
func Implies(a, b bool) bool { return !a || b }

// B2I: 1 if b else 0, without forking.
func B2I(b bool) int {
	if b {
		return 1
	}
	return 0
}

// Tiered returns q in the quick tier and t in the thorough tier (used for the sizes of constant lists).
func Tiered(q, t int) int { return t }

// SetNow sets the virtual clock of the executor (the next time.Now() is >= t).  No native effect.
func SetNow(t int64) {}

// Now returns the executor's current virtual clock reading (natively: the wall clock).
func Now() int64 { return time.Now().UnixNano() }

// ClockReading returns the i-th (1-based) time.Now() reading taken since the last SetNow.
func ClockReading(i int) int64 { return 0 }

// ClockReadings returns how many time.Now() readings were taken since the last SetNow.
func ClockReadings() int { return 0 }

// CancelCtx returns a context that is cancelled from a symbolic instant <name>.cancelAt on
// (math.MaxInt64 = never).  Natively: cancelled immediately iff the replay value is <= 0.
func CancelCtx(name string) context.Context {
	at := int64(raw(name + ".cancelAt"))
	ctx, cancel := context.WithCancel(context.Background())
	if at <= 0 {
		cancel()
	}
	_ = cancel
	return ctx
}

// CancelCtxAt returns a context cancelled from instant `at` on (math.MaxInt64 = never); natively:
// cancelled immediately iff at <= 0.
func CancelCtxAt(at int64) context.Context {
	ctx, cancel := context.WithCancel(context.Background())
	if at <= 0 {
		cancel()
	}
	_ = cancel
	return ctx
}

// DeadlineCtxAt: like CancelCtxAt, and Deadline() reports (deadline, has).  Harnesses assume
// has => at <= deadline (a context is done no later than its deadline).
func DeadlineCtxAt(at int64, deadline int64, has bool) context.Context {
	if has {
		ctx, cancel := context.WithDeadline(context.Background(), time.Unix(0, deadline))
		_ = cancel
		return ctx
	}
	return CancelCtxAt(at)
}

// CancelCtxEvent (concurrent harnesses): a context the environment may cancel at any moment, or never.
func CancelCtxEvent(name string) context.Context {
	ctx, cancel := context.WithCancel(context.Background())
	_ = cancel
	return ctx
}

// TimeAt returns the instant with the given unix nanoseconds.
func TimeAt(n int64) time.Time { return time.Unix(0, n) }

// Offer tells the sequential executor that another party is ready on channel ch (a parked
// receiver for sends, a sender of v for receives) under condition ready.  No native effect.
func Offer(ch interface{}, ready bool, v interface{}) {}

// Spawn registers a thread of a concurrent harness; Parallel runs all registered threads
// "concurrently": the executor explores every interleaving symbolically, the code after Parallel()
// observes the quiescent final state.  Natively the threads run as goroutines and are joined with a
// timeout (a blocked thread stays blocked).
var spawned []func()
var spawnedNames []string
var blockedNative = map[string]bool{}

// Spawn registers thread f under a name.
func Spawn(name string, f func()) {
	spawned = append(spawned, f)
	spawnedNames = append(spawnedNames, name)
}

// SpawnAfter registers thread f like Spawn, with the scheduling constraint that it takes its first
// step only after every thread named in `after` (and every goroutine those threads started) has
// reached its first blocking operation (parked select / Cond.Wait) or, if it never blocks, has
// finished.  This fixes an arrival order ("B arrives once A is parked"); everything after that
// point is still interleaved freely.  Natively: started 50 ms after the previous thread.
func SpawnAfter(name string, f func(), after ...string) {
	spawned = append(spawned, func() { time.Sleep(time.Duration(50*len(spawned)) * time.Millisecond); f() })
	spawnedNames = append(spawnedNames, name)
}

// SpawnAfterDone registers thread f with the constraint that it takes its first step only after every
// thread named in `after` has FINISHED (returned); combinations in which such a thread never returns
// are not explored.  Natively like SpawnAfter.
func SpawnAfterDone(name string, f func(), after ...string) {
	spawned = append(spawned, func() { time.Sleep(time.Duration(50*len(spawned)) * time.Millisecond); f() })
	spawnedNames = append(spawnedNames, name)
}

// Parallel runs the spawned threads.
func Parallel() {
	done := make([]chan struct{}, len(spawned))
	for i, f := range spawned {
		done[i] = make(chan struct{})
		go func(f func(), d chan struct{}) { defer close(d); f() }(f, done[i])
	}
	for i, d := range done {
		select {
		case <-d:
		case <-time.After(2 * time.Second):
			blockedNative[spawnedNames[i]] = true
		}
	}
}

// Blocked reports (after Parallel) whether the named thread is blocked forever.
func Blocked(name string) bool { return blockedNative[name] }

// GoCount / RunGo (harnesses with `go=defer`): goroutines started by the code under test are
// recorded instead of run; RunGo(i) runs the i-th one to completion (or until it blocks).
func GoCount() int { return 0 }

// RunGo runs a recorded goroutine.
func RunGo(i int) {}

// Recorded returns how often the recording stub of a third-party metric object was called
// (key "<lib>:<kind>:<name>.<method>"); RecordedLast its last first argument as an integer.
func Recorded(key string) int { return 0 }

// RecordedLast: see Recorded.
func RecordedLast(key string) int64 { return -1 }

// Symbolic is true under the symbolic executor and false in native replay.
func Symbolic() bool { return false }

// StatusCode is replaced by the executor; natively harnesses use status.Code directly.
var StatusCodeFn func(err error) uint32

// StatusCode returns the gRPC status code carried by err.
func StatusCode(err error) uint32 {
	if StatusCodeFn != nil {
		return StatusCodeFn(err)
	}
	return 2
}

// RunReplay runs the harness named in the replay vector and reports the outcome.
func RunReplay(t *testing.T, hs map[string]func()) {
	load()
	f, ok := hs[vec.Harness]
	if !ok {
		t.Skipf("no harness %q in this package", vec.Harness)
		return
	}
	type result struct {
		Status string `json:"status"`
		ID     string `json:"id,omitempty"`
		Msg    string `json:"msg,omitempty"`
	}
	res := result{Status: "passed"}
	done := make(chan struct{})
	go func() {
		defer close(done)
		defer func() {
			if r := recover(); r != nil {
				switch e := r.(type) {
				case assumeFailed:
					res = result{Status: "assume-failed"}
				case assertFailed:
					res = result{Status: "assert-failed", ID: e.id}
				default:
					res = result{Status: "panic", Msg: fmt.Sprint(r)}
				}
			}
		}()
		f()
	}()
	select {
	case <-done:
	case <-time.After(20 * time.Second):
		res = result{Status: "blocked"}
	}
	b, _ := json.Marshal(res)
	fmt.Printf("VERIF-RESULT %s\n", b)
	if res.Status != "passed" {
		t.Fail()
	}
}
