//go:build verif

package pool

import (
	"time"

	"github.com/platinummonkey/go-concurrency-limits/core"
	"github.com/platinummonkey/go-concurrency-limits/limiter"
	"github.com/platinummonkey/go-concurrency-limits/strategy"
	verif "github.com/platinummonkey/go-concurrency-limits/zz_verifrt"
)

// verifEffective: the backlog bound and timeout the queue limiter documents for the given arguments
// (non-positive bound -> 100; negative timeout -> 0 at the pool, zero timeout -> 1 s at the limiter).
func verifEffective(backlog int, to int64) (uint64, time.Duration) {
	mb := uint64(100)
	if backlog > 0 {
		mb = uint64(backlog)
	}
	if to < 0 {
		to = 0
	}
	qto := time.Duration(to)
	if to == 0 {
		qto = time.Second
	}
	return mb, qto
}

// VerifC19_FixedPool_Composition: NewFixedPool builds the documented stack for every ordering and
// every limit/backlog/timeout: a precise strategy enforcing exactly the fixed limit under a default
// limiter with a fixed limit algorithm, wrapped by a queue limiter with the requested FIFO/LIFO
// ordering, backlog bound and timeout -- or by a blocking limiter for the random ordering.
//
//verif:harness property=C19 theory=bv tier=quick
func VerifC19_FixedPool_Composition() {
	ord := []Ordering{OrderingRandom, OrderingFIFO, OrderingLIFO}[verif.Choice("ordering", 3)]
	lim := verif.Int("limit")
	backlog := verif.Int("maxBacklog")
	to := verif.Int64("timeout")
	verif.Assume(lim >= 1 && lim < 1<<31 && backlog > -(1<<31) && backlog < 1<<31 && to > -(1<<60) && to < 1<<60)
	wantMB, wantTO := verifEffective(backlog, to)
	blockTO := time.Duration(to)
	if to < 0 {
		blockTO = 0
	}
	p, err := NewFixedPool("p", ord, lim, 100, time.Second, time.Second, time.Millisecond, backlog, time.Duration(to), nil, nil)
	verif.Assert("fixedpool-constructed", err == nil && p != nil)
	verif.Assert("fixedpool-accessors", p.Limit() == lim && p.Ordering() == ord)
	kind, qo, mb, qto, delegate := limiter.VerifDescribe(p.limiter)
	switch ord {
	case OrderingFIFO:
		verif.Assert("fixedpool-fifo-queue", kind == "queue" && qo == limiter.OrderingFIFO && mb == wantMB && qto == wantTO)
	case OrderingLIFO:
		verif.Assert("fixedpool-lifo-queue", kind == "queue" && qo == limiter.OrderingLIFO && mb == wantMB && qto == wantTO)
	default:
		verif.Assert("fixedpool-random-blocking", kind == "blocking" && qto == blockTO)
	}
	dl, ok := delegate.(*limiter.DefaultLimiter)
	verif.Assert("fixedpool-default-limiter", ok)
	st, algo := limiter.VerifDefaultParts(dl)
	ps, isPrecise := st.(*strategy.PreciseStrategy)
	verif.Assert("fixedpool-precise-strategy-with-limit", isPrecise && ps.GetLimit() == lim && ps.GetBusyCount() == 0)
	verif.Assert("fixedpool-fixed-limit", algo.EstimatedLimit() == lim)
	verif.Reach("end")
}

// VerifC19_Pool_Composition: NewPool wraps the given limiter with the ordering its argument names.
//
//verif:harness property=C19 theory=bv tier=quick
func VerifC19_Pool_Composition() {
	ord := []Ordering{OrderingRandom, OrderingFIFO, OrderingLIFO}[verif.Choice("ordering", 3)]
	backlog := verif.Int("maxBacklog")
	to := verif.Int64("timeout")
	verif.Assume(backlog > -(1<<31) && backlog < 1<<31 && to > -(1<<60) && to < 1<<60)
	wantMB, wantTO := verifEffective(backlog, to)
	blockTO := time.Duration(to)
	if to < 0 {
		blockTO = 0
	}
	inner, _ := limiter.NewDefaultLimiterWithDefaults("x", strategy.NewPreciseStrategy(3), nil, nil)
	p, err := NewPool(inner, ord, backlog, time.Duration(to), nil, nil)
	verif.Assert("pool-constructed", err == nil && p != nil)
	kind, qo, mb, qto, delegate := limiter.VerifDescribe(p.limiter)
	switch ord {
	case OrderingFIFO:
		verif.Assert("pool-fifo-queue", kind == "queue" && qo == limiter.OrderingFIFO && mb == wantMB && qto == wantTO)
	case OrderingLIFO:
		verif.Assert("pool-lifo-queue", kind == "queue" && qo == limiter.OrderingLIFO && mb == wantMB && qto == wantTO)
	default:
		verif.Assert("pool-random-blocking", kind == "blocking" && qto == blockTO)
	}
	verif.Assert("pool-wraps-delegate", delegate == core.Limiter(inner))
	_, errNil := NewPool(nil, ord, backlog, time.Duration(to), nil, nil)
	verif.Assert("pool-nil-delegate-rejected", errNil != nil)
	verif.Reach("end")
}

// VerifC11_Pool_Orderings: the pool constructors install the queue ordering their argument names
// (FIFO -> FIFO, LIFO -> LIFO, random -> blocking limiter) for every backlog bound and timeout,
// including the non-positive values that select the documented defaults (same bodies as the C19
// composition harnesses).
//
//verif:harness property=C11 theory=bv tier=quick
func VerifC11_Pool_Orderings() {
	if verif.Choice("constructor", 2) == 0 {
		VerifC19_FixedPool_Composition()
	} else {
		VerifC19_Pool_Composition()
	}
}
