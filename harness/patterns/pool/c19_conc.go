//go:build verif

package pool

import (
	"context"
	"time"

	"github.com/platinummonkey/go-concurrency-limits/limiter"
	"github.com/platinummonkey/go-concurrency-limits/strategy"
	verif "github.com/platinummonkey/go-concurrency-limits/zz_verifrt"
)

// verifC19: a fixed pool of limit 1 and two callers, each Acquire -> hold -> complete; every
// interleaving (event-order encoding).  Safety: whenever a caller holds a token the strategy's busy
// count (= tokens held at that instant) is <= the limit.  Service: at quiescence nobody is still
// blocked and nobody was refused (timers disabled: nobody can be refused by time-out).  The lost
// wake-up / hand-off windows of the underlying blocking / queue limiters (C10's known findings)
// show up here as blocked callers with the same schedule classes.
func verifC19(ord Ordering) {
	p, err := NewFixedPool("p", ord, 1, 100, time.Second, time.Second, time.Millisecond, 10, time.Hour, nil, nil)
	verif.Assert("pool-constructed", err == nil)
	_, _, _, _, delegate := limiter.VerifDescribe(p.limiter)
	st, _ := limiter.VerifDefaultParts(delegate.(*limiter.DefaultLimiter))
	ps := st.(*strategy.PreciseStrategy)
	// completions use OnIgnore: the window bookkeeping of OnSuccess/OnDropped is covered by C01/C02/C09/C10
	outcome := 1
	var ok1, ok2, done1, done2 bool
	caller := func(ok, done *bool) func() {
		return func() {
			l, granted := p.Acquire(context.Background())
			*ok = granted && l != nil
			if *ok {
				verif.Assert("never-more-than-limit-held", ps.GetBusyCount() <= 1)
				switch outcome {
				case 0:
					l.OnSuccess()
				case 1:
					l.OnIgnore()
				default:
					l.OnDropped()
				}
			}
			*done = true
		}
	}
	verif.Spawn("c1", caller(&ok1, &done1))
	verif.Spawn("c2", caller(&ok2, &done2))
	verif.Parallel()
	b1, b2 := verif.Blocked("c1"), verif.Blocked("c2")
	verif.Class("caller_blocked_with_capacity_free", (b1 || b2) && ps.GetBusyCount() < 1)
	verif.Assert("every-caller-served", !(b1 || b2))
	if done1 && done2 {
		verif.Assert("nobody-refused", ok1 && ok2)
		verif.Assert("all-capacity-returned", ps.GetBusyCount() == 0)
	}
	verif.Reach("end")
}

// VerifC19_Conc_Random
//
//verif:harness property=C19 theory=bv tier=quick timers=off unwind=3 unwindcut=1 clock=frozen maxpaths=30000
func VerifC19_Conc_Random() { verifC19(OrderingRandom) }

// VerifC19_Conc_FIFO: two callers of a FIFO pool of limit 1, every interleaving (registered since the
// shared-location fix point accepts stable-but-incomplete candidate sets and combinations are pruned
// by relaxed prefix queries).  The pinned tree's lost hand-offs of the queue limiter (C10 7a / 7b)
// show up here as known findings.
//
//verif:harness property=C19 theory=bv tier=quick timers=off unwind=3 unwindcut=1 clock=frozen maxpaths=30000
func VerifC19_Conc_FIFO() { verifC19(OrderingFIFO) }

// VerifC19_Conc_LIFO: see VerifC19_Conc_FIFO.
//
//verif:harness property=C19 theory=bv tier=quick timers=off unwind=3 unwindcut=1 clock=frozen maxpaths=30000
func VerifC19_Conc_LIFO() { verifC19(OrderingLIFO) }

// verifC19GiveUp: a FIFO / LIFO pool of limit 1 whose token is held since setup, one caller queued
// WITH its backlog timer armed (it may give up at any moment, in particular while the releasing
// holder is handing the token over), the holder completing: at quiescence the queued caller has
// returned, and the pool holds exactly the tokens its callers own - a token handed to a caller that
// had already given up is returned to the pool, so that later callers can still be served.
func verifC19GiveUp(ord Ordering) {
	p, err := NewFixedPool("p", ord, 1, 100, time.Second, time.Second, time.Millisecond, 10, time.Second, nil, nil)
	verif.Assert("pool-constructed", err == nil)
	_, _, _, _, delegate := limiter.VerifDescribe(p.limiter)
	st, _ := limiter.VerifDefaultParts(delegate.(*limiter.DefaultLimiter))
	ps := st.(*strategy.PreciseStrategy)
	held, ok := p.Acquire(context.Background())
	verif.Assert("setup-holds-the-only-token", ok && ps.GetBusyCount() == 1)
	var wOK, wDone bool
	verif.Spawn("w", func() {
		l, granted := p.Acquire(context.Background())
		wOK, wDone = granted && l != nil, true
	})
	verif.Spawn("r", func() { held.OnIgnore() })
	verif.Parallel()
	verif.Assert("queued-caller-returns", wDone)
	verif.Assert("pool-holds-exactly-the-tokens-owned", ps.GetBusyCount() == verif.B2I(wOK))
	verif.Reach("end")
}

// VerifC19_Conc_GiveUp_FIFO / _LIFO
//
//verif:harness property=C19 theory=bv tier=quick unwind=3 unwindcut=1 clock=frozen maxpaths=30000
func VerifC19_Conc_GiveUp_FIFO() { verifC19GiveUp(OrderingFIFO) }

//verif:harness property=C19 theory=bv tier=quick unwind=3 unwindcut=1 clock=frozen maxpaths=30000
func VerifC19_Conc_GiveUp_LIFO() { verifC19GiveUp(OrderingLIFO) }

// verifC19TwoQueued: a FIFO / LIFO pool of limit 1 whose token is held since setup, two callers queued
// in a fixed arrival order (verif.SpawnAfter), the context of the caller that is next in line is
// cancelled by the environment at any moment or never (pools do not evict cancelled callers), then
// the holder completes: at quiescence no caller is parked while the pool has a free token - a
// release that meets a cancelled caller at the head still serves somebody.
func verifC19TwoQueued(ord Ordering) {
	p, err := NewFixedPool("p", ord, 1, 100, time.Second, time.Second, time.Millisecond, 10, time.Hour, nil, nil)
	verif.Assert("pool-constructed", err == nil)
	_, _, _, _, delegate := limiter.VerifDescribe(p.limiter)
	st, _ := limiter.VerifDefaultParts(delegate.(*limiter.DefaultLimiter))
	ps := st.(*strategy.PreciseStrategy)
	held, ok := p.Acquire(context.Background())
	verif.Assert("setup-holds-the-only-token", ok && ps.GetBusyCount() == 1)
	ctx0, ctx1 := context.Background(), context.Background()
	if ord == OrderingLIFO {
		ctx1 = verif.CancelCtxEvent("head")
	} else {
		ctx0 = verif.CancelCtxEvent("head")
	}
	var ok0, ok1 bool
	verif.SpawnAfter("w0", func() {
		l, g := p.Acquire(ctx0)
		ok0 = g && l != nil
	})
	verif.SpawnAfter("w1", func() {
		l, g := p.Acquire(ctx1)
		ok1 = g && l != nil
	}, "w0")
	verif.SpawnAfter("r", func() { held.OnIgnore() }, "w0", "w1")
	verif.Parallel()
	nBlocked := verif.B2I(verif.Blocked("w0")) + verif.B2I(verif.Blocked("w1"))
	verif.Assert("two-queued-nobody-parked-with-a-free-token", verif.Not(verif.And(nBlocked > 0, ps.GetBusyCount() < 1)))
	verif.Assert("two-queued-pool-holds-the-tokens-owned", ps.GetBusyCount() == verif.B2I(ok0)+verif.B2I(ok1))
	verif.Reach("end")
}

// VerifC19_Conc_TwoQueued_FIFO / _LIFO
//
//verif:harness property=C19 theory=bv tier=quick timers=off unwind=3 unwindcut=1 clock=frozen maxpaths=60000
func VerifC19_Conc_TwoQueued_FIFO() { verifC19TwoQueued(OrderingFIFO) }

//verif:harness property=C19 theory=bv tier=quick timers=off unwind=3 unwindcut=1 clock=frozen maxpaths=60000
func VerifC19_Conc_TwoQueued_LIFO() { verifC19TwoQueued(OrderingLIFO) }

// VerifC19_Conc_TwoQueuedTwoReleases: a FIFO / LIFO pool of limit 2, both tokens held since setup, two
// callers queued in a fixed arrival order, then BOTH holders complete concurrently (two completions
// overlapping inside the queue limiter's unblock): every release hands its token to a queued caller
// - at quiescence nobody is parked while the pool has a free token.
//
//verif:harness property=C19 theory=bv tier=quick timers=off unwind=3 unwindcut=1 clock=frozen maxpaths=60000
func VerifC19_Conc_TwoQueuedTwoReleases() {
	ord := []Ordering{OrderingFIFO, OrderingLIFO}[verif.Choice("ordering", 2)]
	p, err := NewFixedPool("p", ord, 2, 100, time.Second, time.Second, time.Millisecond, 10, time.Hour, nil, nil)
	verif.Assert("pool-constructed", err == nil)
	_, _, _, _, delegate := limiter.VerifDescribe(p.limiter)
	st, _ := limiter.VerifDefaultParts(delegate.(*limiter.DefaultLimiter))
	ps := st.(*strategy.PreciseStrategy)
	h1, ok1 := p.Acquire(context.Background())
	h2, ok2 := p.Acquire(context.Background())
	verif.Assert("setup-holds-both-tokens", ok1 && ok2 && ps.GetBusyCount() == 2)
	var g0, g1 bool
	verif.SpawnAfter("w0", func() {
		l, g := p.Acquire(context.Background())
		g0 = g && l != nil
	})
	verif.SpawnAfter("w1", func() {
		l, g := p.Acquire(context.Background())
		g1 = g && l != nil
	}, "w0")
	verif.SpawnAfter("r1", func() { h1.OnIgnore() }, "w0", "w1")
	verif.SpawnAfter("r2", func() { h2.OnIgnore() }, "w0", "w1")
	verif.Parallel()
	nBlocked := verif.B2I(verif.Blocked("w0")) + verif.B2I(verif.Blocked("w1"))
	verif.Assert("two-releases-nobody-parked-with-a-free-token", verif.Not(verif.And(nBlocked > 0, ps.GetBusyCount() < 2)))
	verif.Assert("two-releases-pool-holds-the-tokens-owned", ps.GetBusyCount() == verif.B2I(g0)+verif.B2I(g1))
	verif.Reach("end")
}

// VerifC19_ReleaseClosingAWindowStillServes (sequential step, free clock): a pool of limit 1 whose
// only token is held; the underlying default limiter's sample window, next-update instant and gauge
// are ARBITRARY (so the completion may be the one that closes a window and runs the limit update
// under the limiter's lock); the holder completes with any outcome: the completion returns (no
// self-deadlock on the limiter's own mutex - the engine's lock model reports re-acquisition), the
// token is back, and the next caller is served - for every ordering.
//
//verif:harness property=C19 theory=bv tier=quick replay=engine clock=free
func VerifC19_ReleaseClosingAWindowStillServes() {
	ord := []Ordering{OrderingRandom, OrderingFIFO, OrderingLIFO}[verif.Choice("ordering", 3)]
	p, err := NewFixedPool("p", ord, 1, 100, time.Second, time.Second, time.Millisecond, 10, time.Hour, nil, nil)
	verif.Assert("pool-constructed", err == nil)
	var dl *limiter.DefaultLimiter
	kind, _, _, _, delegate := limiter.VerifDescribe(p.limiter)
	if kind == "default" {
		dl = p.limiter.(*limiter.DefaultLimiter)
	} else {
		dl = delegate.(*limiter.DefaultLimiter)
	}
	st, _ := limiter.VerifDefaultParts(dl)
	ps := st.(*strategy.PreciseStrategy)
	h, ok := p.Acquire(context.Background())
	verif.Assert("setup-holds-the-token", ok && ps.GetBusyCount() == 1)
	limiter.VerifSymbolicState(dl)
	switch verif.Choice("outcome", 3) {
	case 0:
		h.OnSuccess()
	case 1:
		h.OnIgnore()
	default:
		h.OnDropped()
	}
	verif.Assert("completion-returns-the-token", ps.GetBusyCount() == 0)
	l2, ok2 := p.Acquire(context.Background())
	verif.Assert("next-caller-served-after-any-completion", ok2 && l2 != nil && ps.GetBusyCount() == 1)
	verif.Reach("end")
}
