//go:build verif

package strategy

import (
	"context"

	"github.com/platinummonkey/go-concurrency-limits/core"
	verif "github.com/platinummonkey/go-concurrency-limits/zz_verifrt"
)

// verifC05AddVsSetLimit (event-order): a partitioned strategy of total limit 10 with one partition
// (fraction 0.5); a partition of fraction 0.3 is ADDED at runtime while a limit update changes the
// total limit (to 4 or to 20) concurrently.  Under every interleaving, once both calls have returned
// every registered partition - the old one and the one just added - has the share recomputed from
// the strategy's current limit (one value, the new one), and the new partition is registered.
func verifC05AddVsSetLimit(kind int) {
	L2 := []int{4, 20}[verif.Choice("newLimit", 2)]
	var limA, limB, total func() int
	var add func() bool
	var set func(int)
	if kind == 0 {
		a := NewPredicatePartitionWithMetricRegistry("a", 0.5, func(context.Context) bool { return false }, core.EmptyMetricRegistryInstance)
		b := NewPredicatePartitionWithMetricRegistry("b", 0.3, func(context.Context) bool { return false }, core.EmptyMetricRegistryInstance)
		s, err := NewPredicatePartitionStrategyWithMetricRegistry([]*PredicatePartition{a}, 10, core.EmptyMetricRegistryInstance)
		verif.Assert("conc-strategy-constructed", err == nil && s != nil && a.Limit() == 5)
		limA, limB, total = a.Limit, b.Limit, s.Limit
		add = func() bool { return s.AddPartition(b) }
		set = func(l int) { s.SetLimit(l) }
	} else {
		a := NewLookupPartitionWithMetricRegistry("a", 0.5, 1, core.EmptyMetricRegistryInstance)
		b := NewLookupPartitionWithMetricRegistry("b", 0.3, 1, core.EmptyMetricRegistryInstance)
		s, err := NewLookupPartitionStrategyWithMetricRegistry(map[string]*LookupPartition{"a": a}, nil, 10, core.EmptyMetricRegistryInstance)
		verif.Assert("conc-strategy-constructed", err == nil && s != nil && a.Limit() == 5)
		limA, limB, total = a.Limit, b.Limit, s.Limit
		add = func() bool { return s.AddPartition("b", b) }
		set = func(l int) { s.SetLimit(l) }
	}
	wantA, wantB := verifShare(L2, 0.5), verifShare(L2, 0.3)
	var added bool
	verif.Spawn("add", func() { added = add() })
	verif.Spawn("set", func() { set(L2) })
	verif.Parallel()
	verif.Assert("added-partition-registered", added)
	verif.Assert("total-limit-is-the-update", total() == L2)
	verif.Assert("every-share-recomputed-from-the-current-limit", verif.And(limA() == wantA, limB() == wantB))
	verif.Reach("end")
}

// VerifC05_Pred_AddPartitionVsUpdate
//
//verif:harness property=C05 theory=bv tier=quick maxpaths=30000 clock=frozen
func VerifC05_Pred_AddPartitionVsUpdate() { verifC05AddVsSetLimit(0) }

// VerifC05_Lookup_AddPartitionVsUpdate: the same for the lookup strategy, whose partitions live in a
// Go map: the entries of a map that exists at the fork are shared cells {present, value} in the
// event-order mode, so the insert by one thread and the iteration by the other communicate through
// the read-from constraints like any other shared memory.
//
//verif:harness property=C05 theory=bv tier=quick maxpaths=30000 clock=frozen
func VerifC05_Lookup_AddPartitionVsUpdate() { verifC05AddVsSetLimit(1) }
