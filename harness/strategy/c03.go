//go:build verif

package strategy

import (
	"context"
	"math"

	"github.com/platinummonkey/go-concurrency-limits/core"
	"github.com/platinummonkey/go-concurrency-limits/strategy/matchers"
	verif "github.com/platinummonkey/go-concurrency-limits/zz_verifrt"
)

// fraction pairs (sum <= 1) explored; quick tier: the first three.
var verifFractions = [][2]float64{{0.3, 0.7}, {0.1, 0.5}, {0.0, 1.0}, {0.5, 0.5}, {0.25, 0.05}, {0.7, 0.3}}

// verifShare is the documented share max(1, ceil(limit x fraction)).
func verifShare(limit int, f float64) int {
	s := int(math.Ceil(float64(int32(limit)) * f))
	if s < 1 {
		s = 1
	}
	return s
}

func verifKeyCtx(key string) context.Context {
	return context.WithValue(context.Background(), matchers.LookupPartitionContextKey, key)
}

type verifLookup struct {
	s      *LookupPartitionStrategy
	a, b   *LookupPartition
	fa, fb float64
	limit  int
	total  int
	ba, bb int
	bu     int
}

// verifLookupState: strategy built by the real constructors with two named partitions, total limit
// L in [1, 2^30], then arbitrary counters with the representation invariant
// total == busy(a) + busy(b) + busy(unknown) + busy(removed), all >= 0.
func verifLookupState() *verifLookup {
	fr := verifFractions[verif.Choice("fractions", verif.Tiered(3, len(verifFractions)))]
	L := verif.Int("limit")
	verif.Assume(L >= 1 && L <= 1<<30)
	// partitions created with an arbitrary initial total: the strategy must size them from its limit
	pl := verif.Int("partition.initLimit")
	verif.Assume(pl >= 1 && pl <= 1<<30)
	a := NewLookupPartitionWithMetricRegistry("a", fr[0], int32(pl), core.EmptyMetricRegistryInstance)
	b := NewLookupPartitionWithMetricRegistry("b", fr[1], int32(pl), core.EmptyMetricRegistryInstance)
	s, err := NewLookupPartitionStrategyWithMetricRegistry(map[string]*LookupPartition{"a": a, "b": b}, nil, int32(L), core.EmptyMetricRegistryInstance)
	verif.Assert("lookup-constructed", err == nil && s != nil)
	v := &verifLookup{s: s, a: a, b: b, fa: fr[0], fb: fr[1], limit: L}
	v.ba, v.bb, v.bu = verif.Int("busy.a"), verif.Int("busy.b"), verif.Int("busy.unknown")
	removed := verif.Int("busy.removed")
	verif.Assume(v.ba >= 0 && v.bb >= 0 && v.bu >= 0 && removed >= 0 && v.ba < 1<<28 && v.bb < 1<<28 && v.bu < 1<<28 && removed < 1<<28)
	v.total = v.ba + v.bb + v.bu + removed
	a.busy, b.busy, s.unknownPartition.busy = int32(v.ba), int32(v.bb), int32(v.bu)
	s.busy = int32(v.total)
	return v
}

// VerifC03_Lookup_Shares: right after construction every bin (including the unknown bin) has the
// documented share of the total limit.
//
//verif:harness property=C03 theory=real tier=quick
func VerifC03_Lookup_Shares() {
	v := verifLookupState()
	verif.Assert("lookup-share-a", v.a.Limit() == verifShare(v.limit, v.fa))
	verif.Assert("lookup-share-b", v.b.Limit() == verifShare(v.limit, v.fb))
	verif.Assert("lookup-share-unknown", v.s.unknownPartition.Limit() == verifShare(v.limit, 0))
	verif.Assert("lookup-total-limit", v.s.Limit() == v.limit)
	verif.Reach("end")
}

// VerifC03_Lookup_TryAcquire: admission iff total < limit or bin < share; exact bin accounting;
// refusal changes nothing; release returns exactly the charged bin; unknown keys are a zero-fraction bin.
//
//verif:harness property=C03 theory=real tier=quick
func VerifC03_Lookup_TryAcquire() {
	v := verifLookupState()
	which := verif.Choice("key", 4)
	key := []string{"a", "b", "zz", ""}[which]
	var bin *LookupPartition
	var f float64
	var busy int
	switch which {
	case 0:
		bin, f, busy = v.a, v.fa, v.ba
	case 1:
		bin, f, busy = v.b, v.fb, v.bb
	default:
		bin, f, busy = v.s.unknownPartition, 0, v.bu
	}
	verif.Class("unknown_partition", which >= 2)
	share := verifShare(v.limit, f)
	tok, ok := v.s.TryAcquire(verifKeyCtx(key))
	want := v.total < v.limit || busy < share
	verif.Assert("lookup-admit-iff", ok == want)
	verif.Assert("lookup-token-flag", tok != nil && tok.IsAcquired() == ok)
	others := func() bool {
		r := true
		if bin != v.a {
			r = r && v.a.BusyCount() == v.ba
		}
		if bin != v.b {
			r = r && v.b.BusyCount() == v.bb
		}
		if bin != v.s.unknownPartition {
			r = r && v.s.unknownPartition.BusyCount() == v.bu
		}
		return r
	}
	if ok {
		verif.Assert("lookup-charged", v.s.BusyCount() == v.total+1 && bin.BusyCount() == busy+1 && others())
		verif.Assert("lookup-token-inflight", tok.InFlightCount() == v.total+1)
		tok.Release()
	} else {
		tok.Release() // releasing a refused token must not change anything
	}
	verif.Assert("lookup-restored", v.s.BusyCount() == v.total && bin.BusyCount() == busy && others())
	verif.Reach("end")
}

// VerifC03_Lookup_SetLimit: after SetLimit(L') (any int, floored at 1) the total limit and every
// bin share -- the unknown bin included -- are those of L'.
//
//verif:harness property=C03 theory=real tier=quick
func VerifC03_Lookup_SetLimit() {
	v := verifLookupState()
	nl := verif.Int("newLimit")
	verif.Assume(nl > -(1<<30) && nl <= 1<<30)
	v.s.SetLimit(nl)
	eff := nl
	if eff < 1 {
		eff = 1
	}
	verif.Assert("lookup-setlimit-total", v.s.Limit() == eff)
	verif.Assert("lookup-setlimit-share-a", v.a.Limit() == verifShare(eff, v.fa))
	verif.Assert("lookup-setlimit-share-b", v.b.Limit() == verifShare(eff, v.fb))
	verif.Assert("lookup-setlimit-share-unknown", v.s.unknownPartition.Limit() == verifShare(eff, 0))
	verif.Assert("lookup-setlimit-keeps-busy", v.s.BusyCount() == v.total && v.a.BusyCount() == v.ba && v.b.BusyCount() == v.bb)
	verif.Reach("end")
}

// VerifC03_Lookup_AddRemove: a partition added later gets the share of the current limit; tokens of a
// removed partition still release cleanly; requests for a removed name fall to the unknown bin.
//
//verif:harness property=C03 theory=real tier=quick
func VerifC03_Lookup_AddRemove() {
	v := verifLookupState()
	plc := verif.Int("partition.c.initLimit")
	verif.Assume(plc >= 1 && plc <= 1<<30)
	c := NewLookupPartitionWithMetricRegistry("c", 0.2, int32(plc), core.EmptyMetricRegistryInstance)
	added := v.s.AddPartition("c", c)
	verif.Assert("lookup-add-ok", added && !v.s.AddPartition("c", c))
	verif.Assert("lookup-add-share", c.Limit() == verifShare(v.limit, 0.2))
	// acquire in a (if admitted), remove a, release: counters return
	tok, ok := v.s.TryAcquire(verifKeyCtx("a"))
	n, removed := v.s.RemovePartition("a")
	verif.Assert("lookup-remove-ok", removed)
	if ok {
		verif.Assert("lookup-remove-reports-busy", n == v.ba+1)
		tok.Release()
	}
	verif.Assert("lookup-remove-release-clean", v.s.BusyCount() == v.total && v.a.BusyCount() == v.ba)
	_, again := v.s.RemovePartition("a")
	verif.Assert("lookup-remove-twice", !again)
	verif.Reach("end")
}

// ---------------------------------------------------------------------------------------------

type verifPred struct {
	s      *PredicatePartitionStrategy
	a, b   *PredicatePartition
	fa, fb float64
	limit  int
	total  int
	ba, bb int
}

func verifStrCtx(val string) context.Context {
	return context.WithValue(context.Background(), matchers.StringPredicateContextKey, val)
}

// verifPredState: predicate strategy with two partitions: a matches "x" and "both", b matches "y"
// and "both" (so "both" matches two predicates: the first registered one must be charged).
func verifPredState() *verifPred {
	fr := verifFractions[verif.Choice("fractions", verif.Tiered(3, len(verifFractions)))]
	L := verif.Int("limit")
	verif.Assume(L >= 1 && L <= 1<<30)
	pa := func(ctx context.Context) bool {
		s, _ := ctx.Value(matchers.StringPredicateContextKey).(string)
		return s == "x" || s == "both"
	}
	pb := func(ctx context.Context) bool {
		s, _ := ctx.Value(matchers.StringPredicateContextKey).(string)
		return s == "y" || s == "both"
	}
	a := NewPredicatePartitionWithMetricRegistry("a", fr[0], pa, core.EmptyMetricRegistryInstance)
	b := NewPredicatePartitionWithMetricRegistry("b", fr[1], pb, core.EmptyMetricRegistryInstance)
	s, err := NewPredicatePartitionStrategyWithMetricRegistry([]*PredicatePartition{a, b}, int32(L), core.EmptyMetricRegistryInstance)
	verif.Assert("pred-constructed", err == nil && s != nil)
	v := &verifPred{s: s, a: a, b: b, fa: fr[0], fb: fr[1], limit: L}
	v.ba, v.bb = verif.Int("busy.a"), verif.Int("busy.b")
	removed := verif.Int("busy.removed")
	verif.Assume(v.ba >= 0 && v.bb >= 0 && removed >= 0 && v.ba < 1<<28 && v.bb < 1<<28 && removed < 1<<28)
	v.total = v.ba + v.bb + removed
	a.busy, b.busy = int32(v.ba), int32(v.bb)
	s.busy = int32(v.total)
	return v
}

// VerifC03_Pred_TryAcquire: admission iff total < limit or bin < share for the FIRST matching
// partition; a request matching nothing is refused; exact accounting and release.
//
//verif:harness property=C03 theory=real tier=quick
func VerifC03_Pred_TryAcquire() {
	v := verifPredState()
	verif.Assert("pred-share-a", v.a.Limit() == verifShare(v.limit, v.fa))
	verif.Assert("pred-share-b", v.b.Limit() == verifShare(v.limit, v.fb))
	which := verif.Choice("request", 4)
	val := []string{"x", "y", "both", "none"}[which]
	tok, ok := v.s.TryAcquire(verifStrCtx(val))
	switch which {
	case 3:
		verif.Assert("pred-nomatch-refused", !ok && !tok.IsAcquired())
		verif.Assert("pred-nomatch-unchanged", v.s.BusyCount() == v.total && v.a.BusyCount() == v.ba && v.b.BusyCount() == v.bb)
	case 1:
		want := v.total < v.limit || v.bb < verifShare(v.limit, v.fb)
		verif.Assert("pred-admit-iff-b", ok == want)
		if ok {
			verif.Assert("pred-charged-b", v.s.BusyCount() == v.total+1 && v.b.BusyCount() == v.bb+1 && v.a.BusyCount() == v.ba && tok.InFlightCount() == v.total+1)
		}
	default: // "x" and "both": partition a is the first registered match
		want := v.total < v.limit || v.ba < verifShare(v.limit, v.fa)
		verif.Assert("pred-admit-iff-a", ok == want)
		if ok {
			verif.Assert("pred-charged-first-match", v.s.BusyCount() == v.total+1 && v.a.BusyCount() == v.ba+1 && v.b.BusyCount() == v.bb && tok.InFlightCount() == v.total+1)
		}
	}
	tok.Release()
	verif.Assert("pred-restored", v.s.BusyCount() == v.total && v.a.BusyCount() == v.ba && v.b.BusyCount() == v.bb)
	verif.Reach("end")
}

// VerifC03_Pred_SetLimitAddRemove: SetLimit recomputes every share from the new floored limit; an
// added partition gets the share of the current limit; removed partitions' tokens release cleanly.
//
//verif:harness property=C03 theory=real tier=quick
func VerifC03_Pred_SetLimitAddRemove() {
	v := verifPredState()
	nl := verif.Int("newLimit")
	verif.Assume(nl > -(1<<30) && nl <= 1<<30)
	v.s.SetLimit(nl)
	eff := nl
	if eff < 1 {
		eff = 1
	}
	verif.Assert("pred-setlimit-total", v.s.Limit() == eff)
	verif.Assert("pred-setlimit-share-a", v.a.Limit() == verifShare(eff, v.fa))
	verif.Assert("pred-setlimit-share-b", v.b.Limit() == verifShare(eff, v.fb))
	c := NewPredicatePartitionWithMetricRegistry("c", 0.2, func(ctx context.Context) bool { return false }, core.EmptyMetricRegistryInstance)
	verif.Assert("pred-add-ok", v.s.AddPartition(c) && !v.s.AddPartition(c))
	verif.Assert("pred-add-share", c.Limit() == verifShare(eff, 0.2))
	tok, ok := v.s.TryAcquire(verifStrCtx("x"))
	removed, any := v.s.RemovePartitionsMatching(verifStrCtx("x"))
	verif.Assert("pred-remove", any && len(removed) == 1 && removed[0] == v.a)
	if ok {
		tok.Release()
	}
	verif.Assert("pred-remove-release-clean", v.s.BusyCount() == v.total && v.a.BusyCount() == v.ba)
	t2, ok2 := v.s.TryAcquire(verifStrCtx("x"))
	verif.Assert("pred-removed-nomatch", !ok2 && !t2.IsAcquired())
	// removal keeps the registration order of the remaining partitions: d (registered last) also
	// matches "y"; after a is gone a "y" request is still charged to b, the earlier registration
	d := NewPredicatePartitionWithMetricRegistry("d", 0.2, func(ctx context.Context) bool {
		sv, _ := ctx.Value(matchers.StringPredicateContextKey).(string)
		return sv == "y"
	}, core.EmptyMetricRegistryInstance)
	verif.Assert("pred-add-second-ok", v.s.AddPartition(d))
	bBefore, dBefore := v.b.BusyCount(), d.BusyCount()
	_, ok3 := v.s.TryAcquire(verifStrCtx("y"))
	if ok3 {
		verif.Assert("pred-first-registered-charged-after-removal", v.b.BusyCount() == bBefore+1 && d.BusyCount() == dBefore)
	}
	verif.Reach("end")
}

// VerifC03_Pred_RemovalKeepsOrder: three partitions a, b, c registered in that order, b and c both
// match "y"; removing a (or nothing) must not change which of b and c is "the first registered one":
// the matching request is charged to b.
//
//verif:harness property=C03 theory=real tier=quick
func VerifC03_Pred_RemovalKeepsOrder() {
	v := verifPredState()
	c := NewPredicatePartitionWithMetricRegistry("c", 0.2, func(ctx context.Context) bool {
		sv, _ := ctx.Value(matchers.StringPredicateContextKey).(string)
		return sv == "y" || sv == "z"
	}, core.EmptyMetricRegistryInstance)
	verif.Assert("pred-add-ok", v.s.AddPartition(c))
	switch verif.Choice("remove", 3) {
	case 1:
		removed, any := v.s.RemovePartitionsMatching(verifStrCtx("x"))
		verif.Assert("pred-remove-first", any && len(removed) == 1 && removed[0] == v.a)
	case 2:
		removed, any := v.s.RemovePartitionsMatching(verifStrCtx("z"))
		verif.Assert("pred-remove-last", any && len(removed) == 1 && removed[0] == c)
	}
	bBefore, cBefore := v.b.BusyCount(), c.BusyCount()
	_, ok := v.s.TryAcquire(verifStrCtx("y"))
	if ok {
		verif.Assert("pred-first-registered-charged", v.b.BusyCount() == bBefore+1 && c.BusyCount() == cBefore)
		verif.Reach("charged")
	}
	verif.Reach("end")
}

// VerifC03_Matchers: the bundled string matchers: lookup returns the context string (or ""), the
// predicate matches exactly (or case-insensitively) the configured string.
//
//verif:harness property=C03 theory=bv tier=quick
func VerifC03_Matchers() {
	vals := []string{"abc", "ABC", "x", ""}
	val := vals[verif.Choice("value", len(vals))]
	ctx := context.WithValue(context.Background(), matchers.LookupPartitionContextKey, val)
	verif.Assert("matcher-lookup", matchers.DefaultStringLookupFunc(ctx) == val)
	verif.Assert("matcher-lookup-missing", matchers.DefaultStringLookupFunc(context.Background()) == "")
	pctx := context.WithValue(context.Background(), matchers.StringPredicateContextKey, val)
	verif.Assert("matcher-exact", matchers.StringPredicateMatcher("abc", false)(pctx) == (val == "abc"))
	verif.Assert("matcher-insensitive", matchers.StringPredicateMatcher("abc", true)(pctx) == (val == "abc" || val == "ABC"))
	verif.Assert("matcher-missing", !matchers.StringPredicateMatcher("abc", true)(context.Background()))
	verif.Reach("end")
}

// VerifC03_Shares_ConcreteGrid: the tier-R share harnesses quantify over all limits for a few
// fractions; this one pins the share formula max(1, ceil(limit x fraction)) bit-precisely on a grid
// of awkward fractions (products a hair above an integer, e.g. 3 x 0.334 = 1.002) and limits, for
// both partitioned strategies, after construction and after SetLimit.  All inputs are constants: the
// executor folds the path and no solver query is needed - a pin against rewrites of the formula that
// tier R cannot encode (e.g. one that rounds first made every tier-R obligation "unknown", which is
// INCONCLUSIVE, not a verdict).  The bit-precise version with a symbolic limit in [1, 2^16] was tried
// and is beyond the solvers (unknown at 60 s per fraction, all three back ends).
//
//verif:harness property=C03 theory=bv tier=quick unwind=80
func VerifC03_Shares_ConcreteGrid() {
	fractions := []float64{0.334, 0.3, 0.7, 0.1, 0.05, 0.999, 0.001, 0.3334, 0.5, 0.25}
	limits := []int{1, 2, 3, 7, 10, 100, 503, 1000, 4096}
	never := func(context.Context) bool { return false }
	bad := 0
	for _, f := range fractions {
		la := NewLookupPartitionWithMetricRegistry("a", f, 1, core.EmptyMetricRegistryInstance)
		ls, err1 := NewLookupPartitionStrategyWithMetricRegistry(map[string]*LookupPartition{"a": la}, nil, 1, core.EmptyMetricRegistryInstance)
		pa := NewPredicatePartitionWithMetricRegistry("a", f, never, core.EmptyMetricRegistryInstance)
		ps, err2 := NewPredicatePartitionStrategyWithMetricRegistry([]*PredicatePartition{pa}, 1, core.EmptyMetricRegistryInstance)
		if err1 != nil || err2 != nil {
			bad++
			continue
		}
		for _, L := range limits {
			ls.SetLimit(L)
			ps.SetLimit(L)
			want := verifShare(L, f)
			if la.Limit() != want || pa.Limit() != want {
				bad++
			}
		}
	}
	verif.Assert("share-is-max-1-ceil-limit-times-fraction-on-the-grid", bad == 0)
	verif.Reach("end")
}
