//go:build verif

package strategy

import (
	"context"

	verif "github.com/platinummonkey/go-concurrency-limits/zz_verifrt"
)

// VerifC01_Precise_Direct: the precise strategy used directly by two racing acquirers, one releaser
// (completing a token held since before) and one limit changer, from an arbitrary limit L >= 1 and
// busy count b in [0, L+2] (b > L: the limit was lowered earlier).  Every interleaving is a solver
// variable.  Assertions: a granted call saw fewer outstanding tokens than the limit in force at
// some instant of the call (its post-increment count is <= the largest limit in force), a refused
// call saw at least as many outstanding tokens as the smallest limit in force, and at quiescence the
// counter equals the tokens still held.
//
//verif:harness property=C01 theory=bv tier=quick maxpaths=4000
func VerifC01_Precise_Direct() {
	L := verif.Int("limit")
	b := verif.Int("busy")
	L2 := verif.Int("newLimit")
	verif.Assume(L >= 1 && L < 1<<30 && b >= 1 && b <= L+2 && L2 >= 1 && L2 < 1<<30)
	s := NewPreciseStrategy(L)
	VerifSetPrecise(s, int32(b), int32(L))
	lo, hi := L, L
	if L2 < lo {
		lo = L2
	}
	if L2 > hi {
		hi = L2
	}
	var ok1, ok2 bool
	var n1, n2 int
	verif.Spawn("a1", func() {
		tok, ok := s.TryAcquire(context.Background())
		ok1, n1 = ok, tok.InFlightCount()
		if ok {
			verif.Assert("granted-within-limit", n1 <= hi)
		} else {
			verif.Assert("refused-only-when-full", n1 >= lo)
		}
	})
	verif.Spawn("a2", func() {
		tok, ok := s.TryAcquire(context.Background())
		ok2, n2 = ok, tok.InFlightCount()
		if ok {
			verif.Assert("granted-within-limit", n2 <= hi)
		} else {
			verif.Assert("refused-only-when-full", n2 >= lo)
		}
	})
	verif.Spawn("rel", func() { s.releaseHandler() })
	verif.Spawn("set", func() { s.SetLimit(L2) })
	verif.Parallel()
	held := b - 1
	if ok1 {
		held++
	}
	if ok2 {
		held++
	}
	verif.Assert("counter-is-tokens-out", s.GetBusyCount() == held)
	verif.Assert("limit-is-last-set", s.GetLimit() == L2)
	verif.Assert("two-grants-need-two-slots", !(ok1 && ok2) || b-1+2 <= hi || b+1 <= hi)
	_ = n1
	_ = n2
	verif.Reach("end")
}
