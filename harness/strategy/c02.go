//go:build verif

package strategy

import (
	"github.com/platinummonkey/go-concurrency-limits/core"
	verif "github.com/platinummonkey/go-concurrency-limits/zz_verifrt"
)

// VerifC02_Lookup_TokenAcrossPartitionChange: capacity conservation at the partition-bin layer when
// the partition table changes while a token is outstanding: the token gives its unit back to exactly
// the bin that was charged when it was granted - a key that was counted in the unknown bin and then
// gets its own partition (AddPartition), or a partition that is removed (RemovePartition) and
// possibly re-added under the same name, with the token released afterwards.  Every bin and the total
// return to their values before the grant; nothing goes negative, nothing leaks.
//
//verif:harness property=C02 theory=real tier=quick
func VerifC02_Lookup_TokenAcrossPartitionChange() {
	v := verifLookupState()
	scenario := verif.Choice("scenario", 3)
	c := NewLookupPartitionWithMetricRegistry("c", 0.2, 1, core.EmptyMetricRegistryInstance)
	switch scenario {
	case 0:
		// key "c" is unknown when the token is granted, then gets its own partition
		tok, ok := v.s.TryAcquire(verifKeyCtx("c"))
		verif.Assert("add-partition-ok", v.s.AddPartition("c", c))
		if ok {
			verif.Assert("granted-token-charged-unknown-bin", v.s.unknownPartition.BusyCount() == v.bu+1 && v.s.BusyCount() == v.total+1)
			tok.Release()
		}
		verif.Assert("release-after-add-returns-to-charged-bin", v.s.unknownPartition.BusyCount() == v.bu && c.BusyCount() == 0)
	case 1:
		// partition "a" is removed while its token is outstanding
		tok, ok := v.s.TryAcquire(verifKeyCtx("a"))
		_, removed := v.s.RemovePartition("a")
		verif.Assert("remove-partition-ok", removed)
		if ok {
			tok.Release()
		}
		verif.Assert("release-after-remove-returns-to-charged-bin", v.a.BusyCount() == v.ba && v.s.unknownPartition.BusyCount() == v.bu)
	default:
		// partition "a" is replaced by a new partition of the same name while its token is outstanding
		tok, ok := v.s.TryAcquire(verifKeyCtx("a"))
		_, removed := v.s.RemovePartition("a")
		a2 := NewLookupPartitionWithMetricRegistry("a", 0.3, 1, core.EmptyMetricRegistryInstance)
		verif.Assert("replace-partition-ok", removed && v.s.AddPartition("a", a2))
		if ok {
			tok.Release()
		}
		verif.Assert("release-after-replace-returns-to-charged-bin", v.a.BusyCount() == v.ba && a2.BusyCount() == 0 && v.s.unknownPartition.BusyCount() == v.bu)
	}
	verif.Assert("total-and-other-bins-unchanged", v.s.BusyCount() == v.total && v.b.BusyCount() == v.bb)
	verif.Reach("end")
}

// VerifC02_Pred_TokenAcrossPartitionChange: the same for the predicate strategy: the matching
// partition is removed (and another one added) while its token is outstanding.
//
//verif:harness property=C02 theory=real tier=quick
func VerifC02_Pred_TokenAcrossPartitionChange() {
	v := verifPredState()
	tok, ok := v.s.TryAcquire(verifStrCtx("x"))
	if verif.Choice("addFirst", 2) == 1 {
		c := NewPredicatePartitionWithMetricRegistry("c", 0.2, v.a.predicate, core.EmptyMetricRegistryInstance)
		v.s.AddPartition(c)
	}
	v.s.RemovePartitionsMatching(verifStrCtx("x"))
	if ok {
		tok.Release()
	}
	verif.Assert("pred-release-after-remove-returns-to-charged-bin", v.a.BusyCount() == v.ba && v.b.BusyCount() == v.bb && v.s.BusyCount() == v.total)
	verif.Reach("end")
}

// VerifC02_Strategies_ConcurrentConservation (event-order): the simple and the precise strategy used
// directly by two concurrent TryAcquire calls and a concurrent SetLimit (one token held since setup,
// limits 1..2, new limit 1..2): at quiescence the in-flight count equals the tokens that were
// reported granted (plus the one held) - whatever the interleaving, a call that reports failure has
// left no unit behind, and after releasing everything the count is zero.
//
//verif:harness property=C02 theory=bv tier=quick maxpaths=20000 clock=frozen
func VerifC02_Strategies_ConcurrentConservation() {
	kind := verif.Choice("strategy", 2)
	L := 1 + verif.Choice("limit", 2)
	L2 := 1 + verif.Choice("newLimit", 2)
	var st core.Strategy
	busy := func() int { return 0 }
	if kind == 0 {
		s := NewSimpleStrategy(L)
		st, busy = s, s.GetBusyCount
	} else {
		s := NewPreciseStrategy(L)
		st, busy = s, s.GetBusyCount
	}
	held, ok0 := st.TryAcquire(verifKeyCtx("a"))
	verif.Assert("setup-token", ok0)
	var ok1, ok2 bool
	var t1, t2 core.StrategyToken
	verif.Spawn("a1", func() { t1, ok1 = st.TryAcquire(verifKeyCtx("a")) })
	verif.Spawn("a2", func() { t2, ok2 = st.TryAcquire(verifKeyCtx("a")) })
	verif.Spawn("set", func() { st.SetLimit(L2) })
	verif.Parallel()
	verif.Assert("conc-token-acquired-iff-ok", verif.And(t1.IsAcquired() == ok1, t2.IsAcquired() == ok2))
	verif.Assert("conc-busy-is-tokens-granted", busy() == 1+verif.B2I(ok1)+verif.B2I(ok2))
	held.Release()
	if ok1 {
		t1.Release()
	}
	if ok2 {
		t2.Release()
	}
	verif.Assert("conc-all-released-is-zero", busy() == 0)
	verif.Reach("end")
}
