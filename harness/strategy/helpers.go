//go:build verif

package strategy

import "sync/atomic"

// State injection / inspection helpers for harnesses in other packages (add-only, verif-tagged).

// VerifSetSimple imposes counters on a SimpleStrategy.
func VerifSetSimple(s *SimpleStrategy, busy, limit int32) { *s.inFlight = busy; *s.limit = limit }

// VerifSetPrecise imposes counters on a PreciseStrategy.
func VerifSetPrecise(s *PreciseStrategy, busy, limit int32) { s.inFlight = busy; s.limit = limit }

// VerifSetLookup imposes counters on a LookupPartitionStrategy with partitions "a" and "b".
func VerifSetLookup(s *LookupPartitionStrategy, total, ba, bb, bu int32) {
	s.busy = total
	s.partitions["a"].busy = ba
	s.partitions["b"].busy = bb
	s.unknownPartition.busy = bu
}

// VerifLookupUnknown exposes the unknown bin.
func VerifLookupUnknown(s *LookupPartitionStrategy) *LookupPartition { return s.unknownPartition }

// VerifSetPred imposes counters on a PredicatePartitionStrategy with two partitions.
func VerifSetPred(s *PredicatePartitionStrategy, total, ba, bb int32) {
	s.busy = total
	s.partitions[0].busy = ba
	s.partitions[1].busy = bb
}

func atomicAdd(p *int32) int32 { return atomic.AddInt32(p, 1) }
