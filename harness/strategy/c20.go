//go:build verif

package strategy

import (
	"context"

	"github.com/platinummonkey/go-concurrency-limits/core"
	verif "github.com/platinummonkey/go-concurrency-limits/zz_verifrt"
)

// recording registry / listeners -----------------------------------------------------------------

type recSample struct {
	n    int
	last float64
}

func (s *recSample) AddSample(v float64, tags ...string) { s.n++; s.last = v }

type recRegistry struct {
	dist   map[string]*recSample
	gauges map[string]core.MetricSupplier
}

func newRecRegistry() *recRegistry {
	return &recRegistry{dist: map[string]*recSample{}, gauges: map[string]core.MetricSupplier{}}
}
func (r *recRegistry) key(ID string, tags []string) string {
	k := ID
	for _, t := range tags {
		k += "|" + t
	}
	return k
}
func (r *recRegistry) listener(ID string, tags []string) core.MetricSampleListener {
	k := r.key(ID, tags)
	if l, ok := r.dist[k]; ok {
		return l
	}
	l := &recSample{}
	r.dist[k] = l
	return l
}
func (r *recRegistry) RegisterDistribution(ID string, tags ...string) core.MetricSampleListener {
	return r.listener(ID, tags)
}
func (r *recRegistry) RegisterTiming(ID string, tags ...string) core.MetricSampleListener {
	return r.listener(ID, tags)
}
func (r *recRegistry) RegisterCount(ID string, tags ...string) core.MetricSampleListener {
	return r.listener(ID, tags)
}
func (r *recRegistry) RegisterGauge(ID string, supplier core.MetricSupplier, tags ...string) {
	r.gauges[r.key(ID, tags)] = supplier
}
func (r *recRegistry) Start() {}
func (r *recRegistry) Stop()  {}

func gaugeVal(r *recRegistry, key string) float64 {
	v, _ := r.gauges[key]()
	return v
}

// VerifC20_SimplePrecise: every TryAcquire emits exactly one in-flight sample equal to the busy count
// at the admission decision (post-increment on a grant), and the limit gauge reports the enforced
// limit after any SetLimit.
//
//verif:harness property=C20 theory=real tier=quick
func VerifC20_SimplePrecise() {
	reg := newRecRegistry()
	precise := verif.Choice("strategy", 2) == 1
	L := verif.Int("limit")
	busy := verif.Int("busy")
	verif.Assume(L >= 1 && L < 1<<30 && busy >= 0 && busy < 1<<30)
	var s core.Strategy
	if precise {
		p := NewPreciseStrategyWithMetricRegistry(3, reg, "t:1")
		VerifSetPrecise(p, int32(busy), 3)
		s = p
	} else {
		p := NewSimpleStrategyWithMetricRegistry(3, reg, "t:1")
		VerifSetSimple(p, int32(busy), 3)
		s = p
	}
	nl := verif.Int("newLimit")
	verif.Assume(nl > -(1<<30) && nl < 1<<30)
	s.SetLimit(nl)
	eff := nl
	if eff < 1 {
		eff = 1
	}
	verif.Assert("limit-gauge-reports-enforced", gaugeVal(reg, core.MetricLimit+"|t:1") == float64(eff))
	inflight := reg.dist[core.MetricInFlight+"|t:1"]
	verif.Assert("inflight-listener-registered", inflight != nil && inflight.n == 0)
	tok, ok := s.TryAcquire(context.Background())
	verif.Assert("one-inflight-sample-per-decision", inflight.n == 1)
	if ok {
		verif.Assert("inflight-sample-post-increment", inflight.last == float64(busy+1) && tok.InFlightCount() == busy+1)
	} else {
		verif.Assert("inflight-sample-at-refusal", inflight.last == float64(busy) && tok.InFlightCount() == busy)
	}
	verif.Assert("decision-matches-gauge", ok == (busy < eff))
	verif.Reach("end")
}

// VerifC20_Partitions: partitioned strategies: the limit gauge reports the total limit, every
// partition gauge the partition's share after SetLimit, and a grant emits exactly one in-flight
// sample on the charged partition equal to that partition's busy count after the grant.
//
//verif:harness property=C20 theory=real tier=quick
func VerifC20_Partitions() {
	reg := newRecRegistry()
	lookup := verif.Choice("strategy", 2) == 0
	L := verif.Int("limit")
	ba := verif.Int("busy.a")
	verif.Assume(L >= 1 && L < 1<<30 && ba >= 0 && ba < 1<<28)
	nl := verif.Int("newLimit")
	verif.Assume(nl >= 1 && nl < 1<<30)
	var s core.Strategy
	if lookup {
		a := NewLookupPartitionWithMetricRegistry("a", 0.3, 1, reg)
		b := NewLookupPartitionWithMetricRegistry("b", 0.5, 1, reg)
		ls, err := NewLookupPartitionStrategyWithMetricRegistry(map[string]*LookupPartition{"a": a, "b": b}, nil, int32(L), reg)
		verif.Assert("constructed", err == nil)
		VerifSetLookup(ls, int32(ba), int32(ba), 0, 0)
		s = ls
	} else {
		a := NewPredicatePartitionWithMetricRegistry("a", 0.3, func(ctx context.Context) bool { return true }, reg)
		b := NewPredicatePartitionWithMetricRegistry("b", 0.5, func(ctx context.Context) bool { return false }, reg)
		ps, err := NewPredicatePartitionStrategyWithMetricRegistry([]*PredicatePartition{a, b}, int32(L), reg)
		verif.Assert("constructed", err == nil)
		VerifSetPred(ps, int32(ba), int32(ba), 0)
		s = ps
	}
	s.SetLimit(nl)
	verif.Assert("limit-gauge-total", gaugeVal(reg, core.MetricLimit) == float64(nl))
	verif.Assert("partition-gauge-a", gaugeVal(reg, core.MetricPartitionLimit+"|partition:a") == float64(verifShare(nl, 0.3)))
	verif.Assert("partition-gauge-b", gaugeVal(reg, core.MetricPartitionLimit+"|partition:b") == float64(verifShare(nl, 0.5)))
	pa := reg.dist[core.MetricInFlight+"|partition:a"]
	pb := reg.dist[core.MetricInFlight+"|partition:b"]
	tok, ok := s.TryAcquire(verifKeyCtx("a"))
	if ok {
		verif.Assert("partition-inflight-sample", pa.n == 1 && pa.last == float64(ba+1) && pb.n == 0 && tok.InFlightCount() == ba+1)
	} else {
		verif.Assert("no-sample-on-refusal-elsewhere", pb.n == 0)
	}
	verif.Reach("end")
}

// slotListener records every sample in its own slot (index taken atomically), so that concurrent
// admissions can be compared with the in-flight counts their tokens report.
type slotListener struct {
	n    int32
	a, b float64
}

func (s *slotListener) AddSample(v float64, tags ...string) {
	if atomicAdd(&s.n) == 1 {
		s.a = v
	} else {
		s.b = v
	}
}

type slotRegistry struct {
	core.EmptyMetricRegistry
	l *slotListener
}

func (r *slotRegistry) RegisterDistribution(ID string, tags ...string) core.MetricSampleListener {
	return r.l
}

// VerifC20_Conc_InflightSample: two racing admissions on one strategy (simple / precise), all
// interleavings: the two in-flight samples emitted are exactly the in-flight counts at the two
// admission decisions (the counts the tokens report), as multisets.
//
//verif:harness property=C20 theory=bv tier=quick
func VerifC20_Conc_InflightSample() {
	sl := &slotListener{}
	reg := &slotRegistry{l: sl}
	var s core.Strategy
	if verif.Choice("strategy", 2) == 0 {
		s = NewSimpleStrategyWithMetricRegistry(3, reg)
	} else {
		s = NewPreciseStrategyWithMetricRegistry(3, reg)
	}
	var n1, n2 int
	verif.Spawn("a1", func() {
		tok, _ := s.TryAcquire(context.Background())
		n1 = tok.InFlightCount()
	})
	verif.Spawn("a2", func() {
		tok, _ := s.TryAcquire(context.Background())
		n2 = tok.InFlightCount()
	})
	verif.Parallel()
	a, b := sl.a, sl.b
	verif.Assert("two-samples", sl.n == 2)
	verif.Assert("samples-are-the-admission-counts", (a == float64(n1) && b == float64(n2)) || (a == float64(n2) && b == float64(n1)))
	verif.Assert("admission-counts-distinct", n1 != n2 && n1+n2 == 3)
	verif.Reach("end")
}
