//go:build verif

package strategy

import (
	"context"

	"github.com/platinummonkey/go-concurrency-limits/core"
	"github.com/platinummonkey/go-concurrency-limits/strategy/matchers"
	verif "github.com/platinummonkey/go-concurrency-limits/zz_verifrt"
)

// verifC03Allowed: the set of (ok1, ok2) outcomes (bit 2*ok1+ok2 of the result) that SOME sequential
// order of the operations {acquire(k1), acquire(k2), release(one held token of bin 0)} produces under
// the documented admission rule "total < limit or bin < share" (two bins of share 1 each).
func verifC03Allowed(limit, held int, k1, k2 int, withRelease bool) int {
	n := 2
	if withRelease {
		n = 3
	}
	mask := 0
	perms := [][3]int{{0, 1, 2}, {0, 2, 1}, {1, 0, 2}, {1, 2, 0}, {2, 0, 1}, {2, 1, 0}}
	for _, p := range perms {
		total, bin := held, [2]int{held, 0}
		var ok [2]bool
		for _, op := range p {
			if op >= n {
				continue
			}
			if op == 2 {
				total--
				bin[0]--
				continue
			}
			k := k1
			if op == 1 {
				k = k2
			}
			if total < limit || bin[k] < 1 {
				total++
				bin[k]++
				ok[op] = true
			}
		}
		idx := 0
		if ok[0] {
			idx += 2
		}
		if ok[1] {
			idx++
		}
		mask |= 1 << uint(idx)
	}
	return mask
}

// verifC03Conc (event-order): a partitioned strategy (lookup / predicate) with two partitions of
// fraction 0.5 (share 1 each at limits 1 and 2), `held` tokens of partition a outstanding since
// setup, two callers acquiring CONCURRENTLY for arbitrary partitions, optionally a concurrent release
// of the held token.  At quiescence, under every interleaving: the pair of admission decisions is one
// that some sequential order of the operations gives under the documented rule (no two callers
// admitted past the total limit and past their share because each saw the state before the other was
// charged), the bins hold exactly the outstanding tokens and sum to the total.
func verifC03Conc(kind int) {
	L := 1 + verif.Choice("limit", 2)
	held := verif.Choice("held", 2)
	k1, k2 := verif.Choice("key1", 2), verif.Choice("key2", 2)
	withRelease := held == 1 && verif.Choice("release", 2) == 1
	var st core.Strategy
	var binA, binB, total func() int
	var ctxA, ctxB context.Context
	if kind == 0 {
		a := NewLookupPartitionWithMetricRegistry("a", 0.5, 1, core.EmptyMetricRegistryInstance)
		b := NewLookupPartitionWithMetricRegistry("b", 0.5, 1, core.EmptyMetricRegistryInstance)
		s, err := NewLookupPartitionStrategyWithMetricRegistry(map[string]*LookupPartition{"a": a, "b": b}, nil, int32(L), core.EmptyMetricRegistryInstance)
		verif.Assert("conc-strategy-constructed", err == nil && s != nil)
		st, binA, binB, total = s, a.BusyCount, b.BusyCount, s.BusyCount
		ctxA, ctxB = verifKeyCtx("a"), verifKeyCtx("b")
	} else {
		pa := func(ctx context.Context) bool {
			s, _ := ctx.Value(matchers.StringPredicateContextKey).(string)
			return s == "x"
		}
		pb := func(ctx context.Context) bool {
			s, _ := ctx.Value(matchers.StringPredicateContextKey).(string)
			return s == "y"
		}
		a := NewPredicatePartitionWithMetricRegistry("a", 0.5, pa, core.EmptyMetricRegistryInstance)
		b := NewPredicatePartitionWithMetricRegistry("b", 0.5, pb, core.EmptyMetricRegistryInstance)
		s, err := NewPredicatePartitionStrategyWithMetricRegistry([]*PredicatePartition{a, b}, int32(L), core.EmptyMetricRegistryInstance)
		verif.Assert("conc-strategy-constructed", err == nil && s != nil)
		st, binA, binB, total = s, a.BusyCount, b.BusyCount, s.BusyCount
		ctxA, ctxB = verifStrCtx("x"), verifStrCtx("y")
	}
	var heldTok core.StrategyToken
	if held == 1 {
		t, ok := st.TryAcquire(ctxA)
		verif.Assert("setup-token", ok && binA() == 1 && total() == 1)
		heldTok = t
	}
	allowed := verifC03Allowed(L, held, k1, k2, withRelease)
	base := held
	if withRelease {
		base--
	}
	var ok1, ok2 bool
	var t1, t2 core.StrategyToken
	c1, c2 := ctxA, ctxA
	if k1 == 1 {
		c1 = ctxB
	}
	if k2 == 1 {
		c2 = ctxB
	}
	verif.Spawn("a1", func() { t1, ok1 = st.TryAcquire(c1) })
	verif.Spawn("a2", func() { t2, ok2 = st.TryAcquire(c2) })
	if withRelease {
		verif.Spawn("rel", func() { heldTok.Release() })
	}
	verif.Parallel()
	idx := 2*verif.B2I(ok1) + verif.B2I(ok2)
	verif.Assert("conc-admissions-match-some-sequential-order", (allowed>>uint(idx))&1 == 1)
	verif.Assert("conc-token-acquired-iff-ok", verif.And(t1.IsAcquired() == ok1, t2.IsAcquired() == ok2))
	wantA := base + verif.B2I(ok1)*(1-k1) + verif.B2I(ok2)*(1-k2)
	wantB := verif.B2I(ok1)*k1 + verif.B2I(ok2)*k2
	verif.Assert("conc-bins-are-outstanding-tokens", verif.And(binA() == wantA, binB() == wantB))
	verif.Assert("conc-bins-sum-to-total", total() == wantA+wantB)
	verif.Reach("end")
}

// VerifC03_Lookup_ConcurrentAdmission
//
//verif:harness property=C03 theory=bv tier=quick maxpaths=30000 clock=frozen
func VerifC03_Lookup_ConcurrentAdmission() { verifC03Conc(0) }

// VerifC03_Pred_ConcurrentAdmission
//
//verif:harness property=C03 theory=bv tier=quick maxpaths=30000 clock=frozen
func VerifC03_Pred_ConcurrentAdmission() { verifC03Conc(1) }
