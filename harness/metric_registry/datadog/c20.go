//go:build verif

package datadog

import (
	"time"

	dogstatsd "github.com/DataDog/datadog-go/v5/statsd"

	verif "github.com/platinummonkey/go-concurrency-limits/zz_verifrt"
)

// VerifC20_Datadog_Forwarding: each Register* returns a listener that forwards a sample to the
// go-metrics object of the right kind registered under prefix+ID (histogram Update / timer Update /
// counter Inc), and re-registration returns the same listener.
//
//verif:harness property=C20 theory=real tier=quick replay=engine
func VerifC20_Datadog_Forwarding() {
	r, err := NewMetricRegistryWithClient(&dogstatsd.Client{}, "pre", time.Second)
	verif.Assert("datadog-constructed", err == nil && r.prefix == "pre.")
	v := verif.Int64("value")
	verif.Assume(v >= 0 && v < 1<<40)
	switch verif.Choice("kind", 3) {
	case 0:
		l := r.RegisterDistribution(".id")
		l.AddSample(float64(v))
		verif.Assert("distribution-forwards-to-histogram", verif.Recorded("statsd:Distribution:pre.id") == 1 && verif.RecordedLast("statsd:Distribution:pre.id") == v)
		verif.Assert("distribution-same-listener", r.RegisterDistribution("id") == l)
	case 1:
		l := r.RegisterTiming("id")
		l.AddSample(float64(v))
		verif.Assert("timing-forwards-to-timer", verif.Recorded("statsd:TimeInMilliseconds:pre.id") == 1 && verif.RecordedLast("statsd:TimeInMilliseconds:pre.id") == v)
		verif.Assert("timing-same-listener", r.RegisterTiming("id") == l)
	default:
		l := r.RegisterCount("id")
		l.AddSample(float64(v))
		verif.Assert("count-forwards-to-counter", verif.Recorded("statsd:Count:pre.id") == 1 && verif.RecordedLast("statsd:Count:pre.id") == v)
		verif.Assert("count-same-listener", r.RegisterCount("id") == l)
	}
	verif.Reach("end")
}

// VerifC20_Datadog_Lifecycle: Start is idempotent (one poller however often it is called), the
// poller polls registered gauges on a tick and only while the registry is started, Stop delivers the
// stop signal that makes the poller return, and Stop is idempotent.  Goroutines started by the code
// are recorded (`go=defer`) and run explicitly by the harness.
//
//verif:harness property=C20 theory=bv tier=quick replay=engine go=defer unwind=10 unwindcut=1 clock=frozen
func VerifC20_Datadog_Lifecycle() {
	r, _ := NewMetricRegistryWithClient(&dogstatsd.Client{}, "pre", time.Second)
	polls := 0
	polledWhileStopped := false
	stopAtPoll := -1
	r.RegisterGauge("g", func() (float64, bool) {
		polls++
		if !r.started {
			polledWhileStopped = true
		}
		if polls == stopAtPoll {
			r.stopper <- true
		}
		return 1, true
	})
	nStarts := 1 + verif.Choice("starts", 2)
	for i := 0; i < nStarts; i++ {
		r.Start()
	}
	verif.Class("started_flag_never_set", !r.started)
	verif.Assert("start-idempotent-one-poller", verif.GoCount() == 1)
	verif.Assert("start-marks-started", r.started)
	r.Stop()
	verif.Assert("stop-signals-the-poller", len(r.stopper) == 1 && !r.started)
	r.Stop() // idempotent: must not block or signal again
	verif.Assert("stop-idempotent", len(r.stopper) == 1 && !r.started)
	// the poller, run now, sees the stop signal (possibly after some ticks) and returns
	verif.RunGo(0)
	verif.Assert("poller-terminates-after-stop", len(r.stopper) == 0)
	// (ticks taken by the poller between Stop's signal and its own return happen while Stop is still
	// waiting for it in the real code; the deferred-goroutine model cannot express that, so no claim
	// is made about polls during Stop)
	_, _ = polls, polledWhileStopped
	// two further life cycles in which the poller really ticks (the gauge supplier hands the poller
	// its stop signal on the budgeted poll): every poll is forwarded to the statsd gauge of the
	// prefixed name, in the first cycle and again after Stop + Start
	polledWhileStopped = false
	for cycle := 0; cycle < 2; cycle++ {
		r.Start()
		verif.Assert("restart-spawns-a-new-poller", verif.GoCount() == 2+cycle && r.started)
		stopAtPoll = polls + 1 + verif.Choice("ticks", 2)
		verif.RunGo(1 + cycle)
		verif.Assert("poller-polled-while-started", polls >= stopAtPoll && !polledWhileStopped)
		verif.Assert("polled-values-reach-the-backend-gauge", verif.Recorded("statsd:Gauge:pre.g") == polls)
		r.Stop()
		select {
		case <-r.stopper:
		default:
		}
		verif.Assert("stopped-after-cycle", !r.started)
	}
	verif.Reach("end")
}
