#!/bin/bash
# usage: full_seed.sh <PROP> <seeddir> <logfile> [harness] - like quick_seed.sh but keeps the full output
set -u
P="$1"; SD="$2"; LOG="$3"; H="${4:-}"
export GOFLAGS=-mod=mod GOPROXY=off GOSUMDB=off GOTOOLCHAIN=local
W=$(mktemp -d /tmp/qseed.XXXXXX)
git -C /repo worktree add -q --detach "$W/r" HEAD || exit 2
( cd "$W/r" && git apply "$( [ -f "$SD/patch_rebased.diff" ] && echo "$SD/patch_rebased.diff" || echo "$SD/patch.diff")" ) || { echo "PATCH-DOES-NOT-APPLY"; git -C /repo worktree remove --force "$W/r"; rm -rf "$W"; exit 2; }
HA=""; [ -n "$H" ] && HA="--harness $H"
cd /verif && timeout 3000 bin/gclverify check --property "$P" --repo "$W/r" --no-evidence $HA > "$LOG" 2>&1
cd /; git -C /repo worktree remove --force "$W/r"; rm -rf "$W"
