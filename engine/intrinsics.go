package main

// Intercepted functions: harness run-time (zz_verifrt), math, rand, time, sync,
// sync/atomic, fmt/log/strings/strconv/os, context, errors, grpc status.

import (
	"fmt"
	"go/types"
	"math"
	"os"
	"strconv"
	"strings"
)

type Intrinsic func(ex *Exec, args []Value) Value

const rtPkg = "github.com/platinummonkey/go-concurrency-limits/zz_verifrt."

var intrinsics = map[string]Intrinsic{}

func init() {
	I := intrinsics
	// ---- harness run-time -------------------------------------------------
	nd := func(s Sort) Intrinsic {
		return func(ex *Exec, a []Value) Value { return ex.nondet(a[0].(string), s) }
	}
	I[rtPkg+"Int"] = nd(SInt(64, true))
	I[rtPkg+"Int64"] = nd(SInt(64, true))
	I[rtPkg+"Int32"] = nd(SInt(32, true))
	I[rtPkg+"Uint64"] = nd(SInt(64, false))
	I[rtPkg+"Bool"] = nd(SBool)
	I[rtPkg+"Float"] = nd(SFloat)
	I[rtPkg+"Choice"] = func(ex *Exec, a []Value) Value {
		n := a[1].(*Term)
		if !n.IsConst() {
			panic(unsupported("Choice with symbolic n"))
		}
		c := ex.choice(int(n.SignedVal()))
		ex.sess.NoteChoice(a[0].(string), c)
		return ex.ts.IntS(SInt(64, true), int64(c))
	}
	I[rtPkg+"Assume"] = func(ex *Exec, a []Value) Value {
		c := a[0].(*Term)
		if c.IsTrue() {
			return nil
		}
		if c.IsFalse() || !ex.sess.Feasible(c) {
			panic(pathEnd{"assumption infeasible"})
		}
		ex.sess.AssertPC(c)
		return nil
	}
	I[rtPkg+"Assert"] = func(ex *Exec, a []Value) Value {
		id := a[0].(string)
		c := a[1].(*Term)
		if !ex.sess.Obligation(id, "assert", c, ex.curPos(), "") {
			panic(pathEnd{"assertion " + id + " violated on every input of this path"})
		}
		return nil
	}
	I[rtPkg+"Reach"] = func(ex *Exec, a []Value) Value {
		ex.sess.Reach(a[0].(string))
		return nil
	}
	I[rtPkg+"Class"] = func(ex *Exec, a []Value) Value {
		ex.classes = append(ex.classes, classPred{a[0].(string), a[1].(*Term)})
		if !ex.sess.concrete {
			ex.sess.ref(a[1].(*Term)) // define it in the solver context so that models can be classified
		}
		return nil
	}
	I[rtPkg+"Time"] = func(ex *Exec, a []Value) Value {
		t := ex.nondet(a[0].(string), SInt(64, true))
		return ex.timeValue(t)
	}
	I[rtPkg+"IsNaN"] = func(ex *Exec, a []Value) Value { return ex.ts.FIsNaN(a[0].(*Term)) }
	I[rtPkg+"Finite"] = func(ex *Exec, a []Value) Value {
		t := a[0].(*Term)
		return ex.ts.Not(ex.ts.Or(ex.ts.FIsNaN(t), ex.ts.FIsInf(t)))
	}
	I[rtPkg+"Tiered"] = func(ex *Exec, a []Value) Value {
		if ex.h.RunTier == "thorough" {
			return a[1]
		}
		return a[0]
	}
	// non-forking boolean combinators (Go's && / || / if fork the path; these build one term)
	boolArgs := func(ex *Exec, a []Value) []*Term {
		var ts []*Term
		for _, v := range a {
			switch x := v.(type) {
			case *Term:
				ts = append(ts, x)
			case *SliceV:
				for i := 0; i < x.Len && x.Arr != nil; i++ {
					ts = append(ts, ex.rawLoad((&Ptr{Obj: x.Arr}).child(x.Off+i)).(*Term))
				}
			}
		}
		return ts
	}
	I[rtPkg+"And"] = func(ex *Exec, a []Value) Value { return ex.ts.And(boolArgs(ex, a)...) }
	I[rtPkg+"Or"] = func(ex *Exec, a []Value) Value { return ex.ts.Or(boolArgs(ex, a)...) }
	I[rtPkg+"Not"] = func(ex *Exec, a []Value) Value { return ex.ts.Not(a[0].(*Term)) }
	I[rtPkg+"Implies"] = func(ex *Exec, a []Value) Value { return ex.ts.Implies(a[0].(*Term), a[1].(*Term)) }
	I[rtPkg+"B2I"] = func(ex *Exec, a []Value) Value {
		return ex.ts.Ite(a[0].(*Term), ex.ts.IntS(SInt(64, true), 1), ex.ts.IntS(SInt(64, true), 0))
	}
	I[rtPkg+"Symbolic"] = func(ex *Exec, a []Value) Value { return ex.ts.Bool(true) }
	I[rtPkg+"CancelCtx"] = func(ex *Exec, a []Value) Value {
		name := a[0].(string)
		// cancelAt: instant from which ctx.Err()!=nil; MaxInt64 = never
		at := ex.nondet(name+".cancelAt", SInt(64, true))
		return &IfaceV{V: &CtxV{Name: name, Cancel: at}}
	}
	I[rtPkg+"CancelCtxAt"] = func(ex *Exec, a []Value) Value {
		return &IfaceV{V: &CtxV{Name: "ctx", Cancel: a[0].(*Term)}}
	}
	I[rtPkg+"DeadlineCtxAt"] = func(ex *Exec, a []Value) Value {
		// cancelled from instant a[0] on; Deadline() reports (a[1], a[2])
		return &IfaceV{V: &CtxV{Name: "ctx", Cancel: a[0].(*Term), Deadline: a[1].(*Term), HasDl: a[2].(*Term)}}
	}
	I[rtPkg+"CancelCtxEvent"] = func(ex *Exec, a []Value) Value {
		// concurrent harnesses: a context that the environment may cancel at any moment (or never)
		name := a[0].(string)
		ctx := &CtxV{Name: name, CancelEvent: true}
		if ex.conc == nil {
			ex.conc = &ConcState{mode: "setup", threads: []*ThreadSpec{nil}, writers: map[string]map[int]bool{}, cands: map[string][]refCand{},
				blockedV: map[string]*Term{}, refIDs: map[string]int{"nil": 0}, refVals: map[string]Value{}, goParent: map[int][2]int{}}
		}
		ex.conc.threads = append(ex.conc.threads, &ThreadSpec{Name: "env:cancel:" + name, EnvCancel: name})
		return &IfaceV{V: ctx}
	}
	// context.WithCancel / WithTimeout / WithDeadline (sequential mode; parents cancelled by an
	// environment event - concurrent mode - are not supported): the child is done from the earliest
	// of (parent's cancellation instant, its own deadline, the instant its cancel function is called)
	i64 := SInt(64, true)
	never := func(ex *Exec) *Term { return ex.ts.IntS(i64, 1<<63-1) }
	minT := func(ex *Exec, a, b *Term) *Term { return ex.ts.Ite(ex.ts.IntCmp("le", a, b), a, b) }
	derive := func(ex *Exec, parentV Value, own *Term, dl *Term) Value {
		parent := ctxOf(parentV)
		eff := never(ex)
		var pdl, phas *Term
		for p := parent; p != nil; p = p.Parent {
			if p.CancelEvent {
				panic(unsupported("context derived from an environment-cancelled context"))
			}
			if p.Cancel != nil {
				eff = minT(ex, eff, p.Cancel)
			}
			if p.Deadline != nil && pdl == nil {
				pdl, phas = p.Deadline, p.HasDl
			}
		}
		if own != nil {
			eff = minT(ex, eff, own)
		}
		c := &CtxV{Parent: parent, Name: "derived", Cancel: eff}
		switch {
		case dl != nil && pdl != nil:
			// the earlier of the two deadlines
			c.Deadline = ex.ts.Ite(ex.ts.And(phas, ex.ts.IntCmp("le", pdl, dl)), pdl, dl)
			c.HasDl = ex.ts.Bool(true)
		case dl != nil:
			c.Deadline, c.HasDl = dl, ex.ts.Bool(true)
		}
		cancel := &Closure{Intr: "context.cancelFunc", Bind: []Value{c}}
		return TupleV{&IfaceV{V: c}, cancel}
	}
	I["context.cancelFunc"] = func(ex *Exec, a []Value) Value {
		c := a[0].(*CtxV)
		c.Cancel = minT(ex, c.Cancel, ex.now())
		return nil
	}
	I["context.WithCancel"] = func(ex *Exec, a []Value) Value { return derive(ex, a[0], nil, nil) }
	I["context.WithTimeout"] = func(ex *Exec, a []Value) Value {
		at := ex.ts.IntBin("add", ex.now(), a[1].(*Term))
		return derive(ex, a[0], at, at)
	}
	I["context.WithDeadline"] = func(ex *Exec, a []Value) Value {
		at := ex.timeNanos(a[1])
		return derive(ex, a[0], at, at)
	}
	I[rtPkg+"TimeAt"] = func(ex *Exec, a []Value) Value { return ex.timeValue(a[0].(*Term)) }
	I[rtPkg+"Offer"] = func(ex *Exec, a []Value) Value {
		var ch *ChanV
		switch x := a[0].(type) {
		case *ChanV:
			ch = x
		case *IfaceV:
			ch = x.V.(*ChanV)
		}
		ch.Offered = a[1].(*Term)
		if iv, ok := a[2].(*IfaceV); ok && iv.T != nil {
			ch.OfferV = iv.V
			if _, isIface := ch.Elem.Underlying().(*types.Interface); isIface {
				ch.OfferV = iv
			}
		}
		return nil
	}
	I[rtPkg+"SetNow"] = func(ex *Exec, a []Value) Value {
		ex.clock = a[0].(*Term)
		ex.readings = nil
		return nil
	}
	I[rtPkg+"ClockReading"] = func(ex *Exec, a []Value) Value {
		i := a[0].(*Term)
		if !i.IsConst() || i.SignedVal() < 1 || int(i.SignedVal()) > len(ex.readings) {
			// a harness that asks for a reading the code under test did not take would silently lose
			// the path: report it instead (INCONCLUSIVE)
			panic(unsupported(fmt.Sprintf("harness asked for clock reading %v but the path took %d readings", i, len(ex.readings))))
		}
		return ex.readings[i.SignedVal()-1]
	}
	I[rtPkg+"ClockReadings"] = func(ex *Exec, a []Value) Value {
		return ex.ts.IntS(SInt(64, true), int64(len(ex.readings)))
	}
	I[rtPkg+"Now"] = func(ex *Exec, a []Value) Value {
		if ex.clock == nil {
			return ex.ts.IntS(SInt(64, true), 0)
		}
		return ex.clock
	}
	I[rtPkg+"Blocked"] = func(ex *Exec, a []Value) Value {
		name := a[0].(string)
		if ex.conc == nil {
			return ex.ts.Bool(false)
		}
		if v, ok := ex.conc.blockedV[name]; ok {
			return v
		}
		v := ex.ts.Var("blocked."+name, SBool)
		ex.conc.blockedV[name] = v
		return v
	}
	I[rtPkg+"GoCount"] = func(ex *Exec, a []Value) Value {
		return ex.ts.IntS(SInt(64, true), int64(len(ex.deferredGo)))
	}
	I[rtPkg+"RunGo"] = func(ex *Exec, a []Value) Value {
		i := a[0].(*Term)
		if !i.IsConst() || int(i.SignedVal()) >= len(ex.deferredGo) {
			panic(unsupported("harness asked to run a goroutine the code under test did not start"))
		}
		nframes, depth := len(ex.frames), ex.depth
		func() {
			defer func() {
				if r := recover(); r != nil {
					if _, ok := r.(goBlocked); ok {
						ex.frames = ex.frames[:nframes]
						ex.depth = depth
						ex.ghost["rungo.blocked"] = true
						return
					}
					panic(r)
				}
			}()
			ex.deferredGo[i.SignedVal()]()
		}()
		return nil
	}
	I[rtPkg+"Recorded"] = func(ex *Exec, a []Value) Value {
		n, _ := ex.ghost[a[0].(string)].(int)
		return ex.ts.IntS(SInt(64, true), int64(n))
	}
	I[rtPkg+"RecordedLast"] = func(ex *Exec, a []Value) Value {
		if t, ok := ex.ghost[a[0].(string)+".last"].(*Term); ok {
			return ex.ts.Conv(t, SInt(64, true))
		}
		return ex.ts.IntS(SInt(64, true), -1)
	}
	I[rtPkg+"Spawn"] = func(ex *Exec, a []Value) Value {
		ex.spawn(a[0].(string), a[1].(*Closure))
		return nil
	}
	I[rtPkg+"SpawnAfter"] = func(ex *Exec, a []Value) Value {
		ex.spawn(a[0].(string), a[1].(*Closure))
		spec := ex.conc.threads[len(ex.conc.threads)-1]
		switch sl := a[2].(type) {
		case *SliceV:
			for i := 0; i < sl.Len; i++ {
				if sl.Arr == nil {
					break
				}
				if s, ok := ex.rawLoad((&Ptr{Obj: sl.Arr}).child(sl.Off + i)).(string); ok {
					spec.After = append(spec.After, s)
				} else {
					panic(unsupported("SpawnAfter: non-constant thread name"))
				}
			}
		case nil:
		default:
			panic(unsupported(fmt.Sprintf("SpawnAfter: after list of kind %T", a[2])))
		}
		return nil
	}
	I[rtPkg+"SpawnAfterDone"] = func(ex *Exec, a []Value) Value {
		ex.spawn(a[0].(string), a[1].(*Closure))
		spec := ex.conc.threads[len(ex.conc.threads)-1]
		if sl, ok := a[2].(*SliceV); ok && sl.Arr != nil {
			for i := 0; i < sl.Len; i++ {
				s, ok := ex.rawLoad((&Ptr{Obj: sl.Arr}).child(sl.Off + i)).(string)
				if !ok {
					panic(unsupported("SpawnAfterDone: non-constant thread name"))
				}
				spec.AfterDone = append(spec.AfterDone, s)
			}
		}
		return nil
	}
	I[rtPkg+"Parallel"] = func(ex *Exec, a []Value) Value {
		ex.runParallel()
		return nil
	}

	// ---- math ---------------------------------------------------------------
	fb := func(op string) Intrinsic {
		return func(ex *Exec, a []Value) Value { return ex.ts.FBin(op, a[0].(*Term), a[1].(*Term)) }
	}
	fu := func(op string) Intrinsic {
		return func(ex *Exec, a []Value) Value { return ex.ts.FUn(op, a[0].(*Term)) }
	}
	I["math.Max"] = fb("fmax")
	I["math.Min"] = fb("fmin")
	I["math.Ceil"] = fu("fceil")
	I["math.Floor"] = fu("ffloor")
	I["math.Trunc"] = fu("ftrunc")
	I["math.Round"] = fu("fround")
	I["math.Abs"] = fu("fabs")
	I["math.Sqrt"] = func(ex *Exec, a []Value) Value { return ex.ts.FUn("fsqrt", a[0].(*Term)) }
	I["math.Log10"] = func(ex *Exec, a []Value) Value { return ex.ts.FUn("flog10", a[0].(*Term)) }
	I["math.Pow"] = func(ex *Exec, a []Value) Value {
		x, y := a[0].(*Term), a[1].(*Term)
		if x.IsConst() && y.IsConst() {
			return ex.ts.Float(math.Pow(x.F, y.F))
		}
		if y.IsConst() && y.F == 2 {
			return ex.ts.FBin("fmul", x, x)
		}
		panic(unsupported("math.Pow with symbolic or non-2 exponent"))
	}
	I["math.IsNaN"] = func(ex *Exec, a []Value) Value { return ex.ts.FIsNaN(a[0].(*Term)) }
	I["math.IsInf"] = func(ex *Exec, a []Value) Value {
		x, s := a[0].(*Term), a[1].(*Term)
		if !s.IsConst() {
			panic(unsupported("math.IsInf with symbolic sign"))
		}
		inf := ex.ts.FIsInf(x)
		zero := ex.ts.Float(0)
		switch {
		case s.SignedVal() > 0:
			return ex.ts.And(inf, ex.ts.FCmp("flt", zero, x))
		case s.SignedVal() < 0:
			return ex.ts.And(inf, ex.ts.FCmp("flt", x, zero))
		}
		return inf
	}
	I["math.Inf"] = func(ex *Exec, a []Value) Value {
		s := a[0].(*Term)
		if s.SignedVal() >= 0 {
			return ex.ts.Float(math.Inf(1))
		}
		return ex.ts.Float(math.Inf(-1))
	}
	I["math.NaN"] = func(ex *Exec, a []Value) Value { return ex.ts.Float(math.NaN()) }

	// ---- math/rand ------------------------------------------------------------
	I["math/rand.Float64"] = func(ex *Exec, a []Value) Value {
		f := ex.nondet("rand.Float64", SFloat)
		ex.sess.AssertPC(ex.ts.And(ex.ts.FCmp("fle", ex.ts.Float(0), f), ex.ts.FCmp("flt", f, ex.ts.Float(1))))
		return f
	}
	I["math/rand.Intn"] = func(ex *Exec, a []Value) Value {
		n := a[0].(*Term)
		ex.require("rand-intn", ex.ts.IntCmp("lt", ex.ts.Int(n.Sort, 0), n), "rand.Intn called with n <= 0 (panics)")
		v := ex.nondet("rand.Intn", n.Sort)
		ex.sess.AssertPC(ex.ts.And(ex.ts.IntCmp("le", ex.ts.Int(n.Sort, 0), v), ex.ts.IntCmp("lt", v, n)))
		return v
	}

	// ---- time -------------------------------------------------------------------
	I["time.Now"] = func(ex *Exec, a []Value) Value {
		if ex.h.Opts["clock"] == "frozen" {
			// virtual clock on which computation is instantaneous: only a blocking select (or the
			// harness) advances time
			t := ex.now()
			ex.readings = append(ex.readings, t)
			return ex.timeValue(t)
		}
		ex.nowCnt++
		t := ex.nondet(fmt.Sprintf("now%d", ex.nowCnt), SInt(64, true))
		lo := ex.clock
		if lo == nil {
			lo = ex.ts.IntS(SInt(64, true), 0)
		}
		ex.sess.AssertPC(ex.ts.And(ex.ts.IntCmp("le", lo, t), ex.ts.IntCmp("le", t, ex.ts.IntS(SInt(64, true), 1<<62))))
		ex.clock = t
		ex.readings = append(ex.readings, t)
		return ex.timeValue(t)
	}
	I["(time.Time).UnixNano"] = func(ex *Exec, a []Value) Value { return ex.timeNanos(a[0]) }
	I["(time.Time).UTC"] = func(ex *Exec, a []Value) Value { return a[0] }
	I["(time.Time).After"] = func(ex *Exec, a []Value) Value {
		return ex.ts.IntCmp("lt", ex.timeNanos(a[1]), ex.timeNanos(a[0]))
	}
	I["(time.Time).Before"] = func(ex *Exec, a []Value) Value {
		return ex.ts.IntCmp("lt", ex.timeNanos(a[0]), ex.timeNanos(a[1]))
	}
	I["(time.Time).Equal"] = func(ex *Exec, a []Value) Value {
		return ex.ts.IntCmp("eq", ex.timeNanos(a[0]), ex.timeNanos(a[1]))
	}
	I["(time.Time).Sub"] = func(ex *Exec, a []Value) Value {
		return ex.ts.IntBin("sub", ex.timeNanos(a[0]), ex.timeNanos(a[1]))
	}
	I["(time.Time).Add"] = func(ex *Exec, a []Value) Value {
		return ex.timeValue(ex.ts.IntBin("add", ex.timeNanos(a[0]), a[1].(*Term)))
	}
	I["time.Since"] = func(ex *Exec, a []Value) Value {
		now := intrinsics["time.Now"](ex, nil)
		return ex.ts.IntBin("sub", ex.timeNanos(now), ex.timeNanos(a[0]))
	}
	I["time.Until"] = func(ex *Exec, a []Value) Value {
		now := intrinsics["time.Now"](ex, nil)
		return ex.ts.IntBin("sub", ex.timeNanos(a[0]), ex.timeNanos(now))
	}
	I["(time.Time).IsZero"] = func(ex *Exec, a []Value) Value {
		return ex.ts.IntCmp("eq", ex.timeNanos(a[0]), ex.ts.IntS(SInt(64, true), 0))
	}
	I["(time.Time).Compare"] = func(ex *Exec, a []Value) Value {
		x, y := ex.timeNanos(a[0]), ex.timeNanos(a[1])
		i64 := SInt(64, true)
		return ex.ts.Ite(ex.ts.IntCmp("lt", x, y), ex.ts.IntS(i64, -1), ex.ts.Ite(ex.ts.IntCmp("eq", x, y), ex.ts.IntS(i64, 0), ex.ts.IntS(i64, 1)))
	}
	I["time.NewTimer"] = func(ex *Exec, a []Value) Value { return ex.newTimer(a[0].(*Term), false) }
	I["time.NewTicker"] = func(ex *Exec, a []Value) Value { return ex.newTimer(a[0].(*Term), true) }
	I["(*time.Timer).Stop"] = func(ex *Exec, a []Value) Value { return ex.timerStop(a[0]) }
	I["(*time.Ticker).Stop"] = func(ex *Exec, a []Value) Value { ex.timerStop(a[0]); return nil }

	// ---- fmt / log / strings / strconv / os -----------------------------------------
	I["fmt.Sprintf"] = func(ex *Exec, a []Value) Value { ex.fmtArgs(a[1]); return ex.fmtString(a[0], a[1]) }
	I["fmt.Sprint"] = func(ex *Exec, a []Value) Value { ex.fmtArgs(a[0]); return "<fmt>" }
	I["fmt.Errorf"] = func(ex *Exec, a []Value) Value {
		ex.fmtArgs(a[1])
		return ex.newError(ex.fmtString(a[0], a[1]))
	}
	I["fmt.Println"] = func(ex *Exec, a []Value) Value {
		ex.fmtArgs(a[0])
		return TupleV{ex.ts.IntS(SInt(64, true), 0), &IfaceV{}}
	}
	I["fmt.Printf"] = func(ex *Exec, a []Value) Value {
		ex.fmtArgs(a[1])
		return TupleV{ex.ts.IntS(SInt(64, true), 0), &IfaceV{}}
	}
	I["log.Println"] = func(ex *Exec, a []Value) Value { ex.fmtArgs(a[0]); return nil }
	I["log.Printf"] = func(ex *Exec, a []Value) Value { ex.fmtArgs(a[1]); return nil }
	I["errors.New"] = func(ex *Exec, a []Value) Value { return ex.newError(a[0].(string)) }
	I["strings.HasSuffix"] = func(ex *Exec, a []Value) Value {
		return ex.ts.Bool(strings.HasSuffix(a[0].(string), a[1].(string)))
	}
	I["strings.HasPrefix"] = func(ex *Exec, a []Value) Value {
		return ex.ts.Bool(strings.HasPrefix(a[0].(string), a[1].(string)))
	}
	I["strings.TrimPrefix"] = func(ex *Exec, a []Value) Value { return strings.TrimPrefix(a[0].(string), a[1].(string)) }
	I["strings.ToLower"] = func(ex *Exec, a []Value) Value { return strings.ToLower(a[0].(string)) }
	I["strings.ToUpper"] = func(ex *Exec, a []Value) Value { return strings.ToUpper(a[0].(string)) }
	I["strconv.Atoi"] = func(ex *Exec, a []Value) Value {
		n, err := strconv.Atoi(a[0].(string))
		if err != nil {
			return TupleV{ex.ts.IntS(SInt(64, true), 0), ex.newError("atoi")}
		}
		return TupleV{ex.ts.IntS(SInt(64, true), int64(n)), &IfaceV{}}
	}
	I["os.LookupEnv"] = func(ex *Exec, a []Value) Value {
		// the engine evaluates the table initialisers under the same environment as the native build
		v, ok := os.LookupEnv(a[0].(string))
		return TupleV{v, ex.ts.Bool(ok)}
	}

	// ---- context --------------------------------------------------------------------
	I["context.Background"] = func(ex *Exec, a []Value) Value { return &IfaceV{V: &CtxV{Name: "background"}} }
	I["context.TODO"] = func(ex *Exec, a []Value) Value { return &IfaceV{V: &CtxV{Name: "todo"}} }
	I["context.WithValue"] = func(ex *Exec, a []Value) Value {
		p := ctxOf(a[0])
		return &IfaceV{V: &CtxV{Parent: p, Key: a[1], Val: a[2], HasKV: true, Name: "withValue"}}
	}

	// ---- grpc status -------------------------------------------------------------------
	I["google.golang.org/grpc/status.Error"] = func(ex *Exec, a []Value) Value {
		code := a[0].(*Term)
		if code.IsConst() && code.U == 0 {
			return &IfaceV{}
		}
		ex.nextObj++
		return &IfaceV{V: &OpaqueV{Kind: "status", Code: code, Str: a[1].(string), ID: ex.nextObj}}
	}
	I[rtPkg+"StatusCode"] = func(ex *Exec, a []Value) Value {
		iv, _ := a[0].(*IfaceV)
		if iv == nil || iv.V == nil {
			return ex.ts.Int(SInt(32, false), 0)
		}
		if o, ok := iv.V.(*OpaqueV); ok && o.Kind == "status" {
			return o.Code
		}
		return ex.ts.Int(SInt(32, false), 2) // codes.Unknown for non-status errors
	}

	// ---- go-metrics (third party): opaque recording stubs -------------------------------------
	gmp := "github.com/rcrowley/go-metrics."
	opq := func(kind string) Intrinsic {
		return func(ex *Exec, a []Value) Value {
			name := kind
			if len(a) > 0 {
				if s, ok := a[0].(string); ok {
					name = kind + ":" + s
				}
			}
			return &IfaceV{V: &OpaqueV{Kind: "metric", Str: name, ID: ex.freshID()}}
		}
	}
	// GetOrRegister*: the registry's membership is modelled (name -> the object currently registered
	// under it): a second call returns the same object, Unregister / UnregisterAll on the registry
	// remove it, and calls on an object that is no longer the registered one are recorded as
	// "metric:orphan:..." (they are invisible to readers of the registry)
	gor := func(kind string) Intrinsic {
		return func(ex *Exec, a []Value) Value {
			name := kind
			if len(a) > 0 {
				if s, ok := a[0].(string); ok {
					name = kind + ":" + s
				}
			}
			if o, ok := ex.ghost["gmmember:"+name].(*OpaqueV); ok {
				return &IfaceV{V: o}
			}
			o := &OpaqueV{Kind: "metric", Str: name, ID: ex.freshID()}
			ex.ghost["gmmember:"+name] = o
			return &IfaceV{V: o}
		}
	}
	I[gmp+"NewRegistry"] = opq("registry")
	I[gmp+"NewUniformSample"] = opq("sample")
	I[gmp+"GetOrRegisterHistogram"] = gor("histogram")
	I[gmp+"GetOrRegisterTimer"] = gor("timer")
	I[gmp+"GetOrRegisterCounter"] = gor("counter")
	I[gmp+"GetOrRegisterGaugeFloat64"] = gor("gauge")
	I[gmp+"GetOrRegisterGauge"] = gor("gauge")
	I[gmp+"GetOrRegisterMeter"] = gor("meter")
	ddp := "(*github.com/DataDog/datadog-go/v5/statsd.Client)."
	for _, m := range []string{"Distribution", "TimeInMilliseconds", "Count", "Gauge"} {
		m := m
		I[ddp+m] = func(ex *Exec, a []Value) Value {
			name, _ := a[1].(string)
			k := "statsd:" + m + ":" + name
			n, _ := ex.ghost[k].(int)
			ex.ghost[k] = n + 1
			if t, ok := a[2].(*Term); ok {
				if t.Sort.Kind == KFloat {
					ex.ghost[k+".last"] = ex.f2iNoCheck(t)
				} else {
					ex.ghost[k+".last"] = t
				}
			}
			return &IfaceV{}
		}
	}
	registerSyncIntrinsics()
	registerTypedAtomics()
	registerSyncMap()
}

type classPred struct {
	Name string
	T    *Term
}

func ctxOf(v Value) *CtxV {
	switch x := v.(type) {
	case *CtxV:
		return x
	case *IfaceV:
		if c, ok := x.V.(*CtxV); ok {
			return c
		}
		if x.T == nil && x.V == nil {
			return nil
		}
	}
	panic(unsupported(fmt.Sprintf("context implementation %T is not modelled", v)))
}

func (ex *Exec) newError(msg string) Value {
	ex.nextObj++
	return &IfaceV{V: &OpaqueV{Kind: "error", Str: msg, ID: ex.nextObj}}
}

func (ex *Exec) opaqueMethod(o *OpaqueV, name string, args []Value) Value {
	switch name {
	case "Error", "String":
		return o.Str
	}
	if o.Kind == "metric" && strings.HasPrefix(o.Str, "registry") {
		switch name {
		case "Unregister":
			if n, ok := args[0].(string); ok {
				for k := range ex.ghost {
					if strings.HasPrefix(k, "gmmember:") && strings.HasSuffix(k, ":"+n) {
						delete(ex.ghost, k)
					}
				}
				return nil
			}
			panic(unsupported("go-metrics Registry.Unregister with a non-constant name"))
		case "UnregisterAll":
			for k := range ex.ghost {
				if strings.HasPrefix(k, "gmmember:") {
					delete(ex.ghost, k)
				}
			}
			return nil
		case "Each", "Get", "GetAll", "GetOrRegister", "Register", "RunHealthchecks":
			panic(unsupported("go-metrics Registry." + name + " is not modelled"))
		}
	}
	if o.Kind == "metric" {
		// recording stub of a third-party metric object
		k := "metric:" + o.Str + "." + name
		if cur, ok := ex.ghost["gmmember:"+o.Str].(*OpaqueV); (!ok || cur != o) && !strings.HasPrefix(o.Str, "registry") && !strings.HasPrefix(o.Str, "sample") {
			k = "metric:orphan:" + o.Str + "." + name
		}
		n, _ := ex.ghost[k].(int)
		ex.ghost[k] = n + 1
		if len(args) > 0 {
			ex.ghost[k+".last"] = args[0]
		}
		if o.Str != "" && name == "Update" && strings.HasPrefix(o.Str, "gauge") {
			return nil
		}
		return nil
	}
	panic(unsupported("method " + name + " on opaque " + o.Kind))
}

// fmtString renders the format concretely when every verb is %s/%d/%v applied to a concrete
// string or integer (metric names and tags are built this way); otherwise an opaque label.
func (ex *Exec) fmtString(f Value, args Value) string {
	format, _ := f.(string)
	sl, ok := args.(*SliceV)
	var vals []string
	if ok && sl.Arr != nil {
		for i := 0; i < sl.Len; i++ {
			el := ex.rawLoad((&Ptr{Obj: sl.Arr}).child(sl.Off + i))
			iv, isI := el.(*IfaceV)
			if !isI {
				return "<fmt:" + format + ">"
			}
			switch x := iv.V.(type) {
			case string:
				vals = append(vals, x)
			case *Term:
				if !x.IsConst() || x.Sort.Kind != KInt {
					return "<fmt:" + format + ">"
				}
				vals = append(vals, x.String())
			default:
				return "<fmt:" + format + ">"
			}
		}
	}
	var sb strings.Builder
	vi := 0
	for i := 0; i < len(format); i++ {
		c := format[i]
		if c != '%' || i+1 >= len(format) {
			sb.WriteByte(c)
			continue
		}
		i++
		switch format[i] {
		case '%':
			sb.WriteByte('%')
		case 's', 'd', 'v':
			if vi >= len(vals) {
				return "<fmt:" + format + ">"
			}
			sb.WriteString(vals[vi])
			vi++
		default:
			return "<fmt:" + format + ">"
		}
	}
	if vi != len(vals) {
		return "<fmt:" + format + ">"
	}
	return sb.String()
}

// fmtArgs models fmt's reflection on its arguments: Stringer/error arguments have
// their String()/Error() method called; pointers to structs are read.
func (ex *Exec) fmtArgs(v Value) {
	sl, ok := v.(*SliceV)
	if !ok || sl.Arr == nil {
		return
	}
	for i := 0; i < sl.Len; i++ {
		el := ex.rawLoad((&Ptr{Obj: sl.Arr}).child(sl.Off + i))
		iv, ok := el.(*IfaceV)
		if !ok || iv.T == nil {
			continue
		}
		ex.fmtOne(iv, 0)
	}
}

func (ex *Exec) fmtOne(iv *IfaceV, depth int) {
	if depth > 3 || iv.T == nil {
		return
	}
	ms := ex.prog.MethodSets.MethodSet(iv.T)
	for _, name := range []string{"Error", "String"} {
		if sel := ms.Lookup(nil, name); sel != nil {
			fn := ex.prog.MethodValue(sel)
			if fn != nil && ex.isRepoPkg(fn.Pkg) {
				if p, isPtr := iv.V.(*Ptr); isPtr && p.Obj == nil {
					return
				}
				ex.callFunction(fn, []Value{iv.V}, nil)
			}
			return
		}
	}
	// %v of a pointer to struct / struct: fmt reads the fields reflectively
	switch x := iv.V.(type) {
	case *Ptr:
		if x.Obj == nil {
			return
		}
		if pt, ok := iv.T.Underlying().(*types.Pointer); ok {
			if _, isStruct := pt.Elem().Underlying().(*types.Struct); isStruct {
				ex.reflectRead(x, pt.Elem(), depth)
				return
			}
			if _, isBasic := pt.Elem().Underlying().(*types.Basic); isBasic {
				// %d of *int32 prints the address: no read
				return
			}
		}
	case *MapV:
		if !x.Nil {
			ex.mapAccess(x, false)
			mt, _ := iv.T.Underlying().(*types.Map)
			for _, k := range x.sortedKeys() {
				e := x.Entries[k]
				if mt != nil && ex.entryPresent(e) {
					ex.fmtOne(&IfaceV{T: mt.Elem(), V: ex.entryVal(e)}, depth+1)
				}
			}
		}
	case *SliceV:
		if x.Arr != nil {
			st, _ := iv.T.Underlying().(*types.Slice)
			for i := 0; i < x.Len; i++ {
				el := ex.load((&Ptr{Obj: x.Arr}).child(x.Off + i))
				if st != nil {
					ex.fmtOne(&IfaceV{T: st.Elem(), V: el}, depth+1)
				}
			}
		}
	case *IfaceV:
		ex.fmtOne(x, depth+1)
	}
}

// reflectRead models fmt printing a struct through a pointer: every field is read (plain loads).
func (ex *Exec) reflectRead(p *Ptr, t types.Type, depth int) {
	st, ok := t.Underlying().(*types.Struct)
	if !ok || depth > 2 {
		return
	}
	for i := 0; i < st.NumFields(); i++ {
		ft := st.Field(i).Type()
		fp := p.child(i)
		switch ft.Underlying().(type) {
		case *types.Struct:
			if named, ok := ft.(*types.Named); ok && named.Obj().Pkg() != nil && named.Obj().Pkg().Path() == "sync" {
				continue
			}
			ex.reflectRead(fp, ft, depth+1)
		case *types.Basic:
			ex.load(fp)
		case *types.Interface:
			v := ex.load(fp)
			if iv, ok := v.(*IfaceV); ok {
				ex.fmtOne(iv, depth+1)
			}
		default:
			ex.load(fp)
		}
	}
}

func (ex *Exec) ctxMethod(c *CtxV, name string, args []Value) Value {
	switch name {
	case "Value":
		for p := c; p != nil; p = p.Parent {
			if p.HasKV && ex.valuesEqual(p.Key, args[0]).IsTrue() {
				return p.Val
			}
		}
		return &IfaceV{}
	case "Err":
		for p := c; p != nil; p = p.Parent {
			if p.CancelEvent {
				if ex.conc.active() && (ex.conc.mode == "thread" || ex.conc.mode == "final") {
					k := ex.ctl.Choose(2, func(int) bool { return true })
					if k == 0 {
						ex.addEvent(&Event{Kind: "ctxerr", Loc: "ctx:" + p.Name, Aux: "cancelled"})
						return ex.newError("context canceled")
					}
					ex.addEvent(&Event{Kind: "ctxerr", Loc: "ctx:" + p.Name, Aux: "live"})
				}
				return &IfaceV{}
			}
			if p.Cancel != nil {
				now := ex.clock
				if now == nil {
					now = ex.ts.IntS(SInt(64, true), 0)
				}
				cancelled := ex.ts.IntCmp("le", p.Cancel, now)
				if ex.branch(cancelled, nil) {
					return ex.newError("context canceled")
				}
				return &IfaceV{}
			}
		}
		return &IfaceV{}
	case "Done":
		for p := c; p != nil; p = p.Parent {
			if p.CancelEvent {
				if p.DoneCh == nil {
					p.DoneCh = &ChanV{ID: ex.freshID(), Label: "ctx.Done(" + p.Name + ")", Ctx: p}
				}
				return p.DoneCh
			}
			if p.Cancel != nil {
				if p.DoneCh == nil {
					ex.nextObj++
					p.DoneCh = &ChanV{ID: ex.nextObj, Label: "ctx.Done(" + p.Name + ")", Ctx: p}
				}
				return p.DoneCh
			}
		}
		return &ChanV{Nil: true}
	case "Deadline":
		for p := c; p != nil; p = p.Parent {
			if p.Deadline != nil {
				// a context without a deadline reports the zero time
				return TupleV{ex.timeValue(ex.ts.Ite(p.HasDl, p.Deadline, ex.ts.IntS(SInt(64, true), 0))), p.HasDl}
			}
		}
		return TupleV{ex.timeValue(ex.ts.IntS(SInt(64, true), 0)), ex.ts.Bool(false)}
	}
	panic(unsupported("context method " + name))
}

// time.Time is modelled as the real struct with ext = unix nanoseconds (wall=0, loc=nil).
func (ex *Exec) timeValue(nanos *Term) Value {
	return &StructV{Fields: []Value{ex.ts.Int(SInt(64, false), 0), nanos, &Ptr{}}}
}
func (ex *Exec) timeNanos(v Value) *Term {
	sv, ok := v.(*StructV)
	if !ok || len(sv.Fields) != 3 {
		panic(unsupported("time.Time value not produced by the clock stub"))
	}
	return sv.Fields[1].(*Term)
}
