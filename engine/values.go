package main

import (
	"fmt"
	"go/types"
	"sort"
	"strings"

	"golang.org/x/tools/go/ssa"
)

// Value is one of:
//
//	*Term      scalar bool / integer / float64
//	string     (concrete Go string)
//	*Ptr       pointer (Obj==nil: nil pointer)
//	*StructV   struct value
//	*ArrayV    array value
//	*SliceV    slice (Arr==nil: nil slice)
//	*MapV      map
//	*IfaceV    interface value
//	*Closure   function value (Fn==nil && B==nil: nil func)
//	*ChanV     channel
//	TupleV     multiple results
//	*CtxV      modelled context.Context implementation
//	*OpaqueV   opaque environment value (errors, formatted strings, timers …)
type Value interface{}

type Object struct {
	ID       int
	V        Value
	Label    string
	Thread   int // allocating thread (concurrent mode), 0 = setup
	Shared   bool
	Typ      types.Type
	Key      string      // stable identity of objects allocated by a thread (concurrent mode)
	OwnerRun *ThreadPath // the thread run that allocated it
	Foreign  bool
}

type Ptr struct {
	Obj  *Object
	Path []int
	Sym  *Term // optional symbolic index into the array at Path (loads only)
}

type StructV struct{ Fields []Value }
type ArrayV struct{ Elems []Value }
type SliceV struct {
	Arr           *Object // V is *ArrayV
	Off, Len, Cap int
}
type mapEntry struct {
	K, V Value
	// Cell (event-order mode only): the entry of a map that existed at the fork lives in a shared
	// object {present bool, value}, so that insert / lookup / delete / range by different threads
	// communicate through the read-from machinery like any other shared memory
	Cell *Object
}
type MapV struct {
	Nil     bool
	ID      int
	Entries map[string]*mapEntry
}
type IfaceV struct {
	T types.Type
	V Value
}
type Closure struct {
	Fn   *ssa.Function
	Bind []Value
	B    *ssa.Builtin
	Intr string // intrinsic-only function value
}
type TupleV []Value

type ChanV struct {
	Nil    bool
	ID     int
	Cap    int
	Buf    []Value
	Closed bool
	Elem   types.Type
	Label  string
	// sequential select model (C13): an external party may offer a value
	Offered *Term
	OfferV  Value
	TimerID int // >0: this is timer.C of timer TimerID
	Ctx     *CtxV
}

type CtxV struct {
	CancelEvent bool
	Parent      *CtxV
	Key, Val    Value
	HasKV       bool
	Cancel      *Term // symbolic "cancelled" flag (nil: never cancelled)
	Deadline    *Term // instant reported by Deadline() (nil: no deadline)
	HasDl       *Term // whether Deadline() reports one
	Name        string
	DoneCh      *ChanV
	CancelObj   *Object
}

type OpaqueV struct {
	Kind string // "error","timer","status",...
	Str  string
	Code *Term
	Aux  map[string]Value
	ID   int
}

func isNilPtr(v Value) bool {
	p, ok := v.(*Ptr)
	return ok && p.Obj == nil
}

func copyVal(v Value) Value {
	switch x := v.(type) {
	case *StructV:
		n := &StructV{Fields: make([]Value, len(x.Fields))}
		for i, f := range x.Fields {
			n.Fields[i] = copyVal(f)
		}
		return n
	case *ArrayV:
		n := &ArrayV{Elems: make([]Value, len(x.Elems))}
		for i, f := range x.Elems {
			n.Elems[i] = copyVal(f)
		}
		return n
	case TupleV:
		n := make(TupleV, len(x))
		for i, f := range x {
			n[i] = copyVal(f)
		}
		return n
	}
	return v
}

func (p *Ptr) key() string {
	if p.Obj == nil {
		return "nil"
	}
	var sb strings.Builder
	fmt.Fprintf(&sb, "o%d", p.Obj.ID)
	for _, i := range p.Path {
		fmt.Fprintf(&sb, ".%d", i)
	}
	return sb.String()
}

func (p *Ptr) child(i int) *Ptr {
	np := make([]int, len(p.Path)+1)
	copy(np, p.Path)
	np[len(p.Path)] = i
	return &Ptr{Obj: p.Obj, Path: np}
}

func typeSort(t types.Type) (Sort, bool) {
	b, ok := t.Underlying().(*types.Basic)
	if !ok {
		return Sort{}, false
	}
	switch b.Kind() {
	case types.Bool, types.UntypedBool:
		return SBool, true
	case types.Int, types.Int64, types.UntypedInt, types.UntypedRune:
		return SInt(64, true), true
	case types.Int32:
		return SInt(32, true), true
	case types.Int16:
		return SInt(16, true), true
	case types.Int8:
		return SInt(8, true), true
	case types.Uint, types.Uint64, types.Uintptr:
		return SInt(64, false), true
	case types.Uint32:
		return SInt(32, false), true
	case types.Uint16:
		return SInt(16, false), true
	case types.Uint8:
		return SInt(8, false), true
	case types.Float64, types.UntypedFloat:
		return SFloat, true
	}
	return Sort{}, false
}

func (ex *Exec) zero(t types.Type) Value {
	switch u := t.Underlying().(type) {
	case *types.Basic:
		if u.Kind() == types.String || u.Kind() == types.UntypedString {
			return ""
		}
		if u.Kind() == types.UnsafePointer || u.Kind() == types.UntypedNil {
			return &Ptr{}
		}
		s, ok := typeSort(t)
		if !ok {
			panic(unsupported("zero value of " + t.String()))
		}
		switch s.Kind {
		case KBool:
			return ex.ts.Bool(false)
		case KFloat:
			return ex.ts.Float(0)
		}
		return ex.ts.Int(s, 0)
	case *types.Pointer:
		return &Ptr{}
	case *types.Struct:
		sv := &StructV{Fields: make([]Value, u.NumFields())}
		for i := 0; i < u.NumFields(); i++ {
			sv.Fields[i] = ex.zero(u.Field(i).Type())
		}
		return sv
	case *types.Array:
		av := &ArrayV{Elems: make([]Value, int(u.Len()))}
		for i := range av.Elems {
			av.Elems[i] = ex.zero(u.Elem())
		}
		return av
	case *types.Slice:
		return &SliceV{}
	case *types.Map:
		return &MapV{Nil: true}
	case *types.Interface:
		return &IfaceV{}
	case *types.Signature:
		return &Closure{}
	case *types.Chan:
		return &ChanV{Nil: true}
	case *types.Tuple:
		tv := make(TupleV, u.Len())
		for i := 0; i < u.Len(); i++ {
			tv[i] = ex.zero(u.At(i).Type())
		}
		return tv
	}
	panic(unsupported("zero value of " + t.String()))
}

func (ex *Exec) newObject(v Value, label string, t types.Type) *Object {
	ex.nextObj++
	o := &Object{ID: ex.nextObj, V: v, Label: label, Typ: t}
	if ex.conc.active() {
		c := ex.conc
		o.Thread = c.curThread
		site := label
		c.allocSeq[site]++
		o.Key = fmt.Sprintf("T%d:%s#%d", c.curThread, site, c.allocSeq[site])
		o.OwnerRun = c.cur
	}
	ex.allObjs = append(ex.allObjs, o)
	return o
}

// slot navigation ------------------------------------------------------------

func (ex *Exec) rawLoad(p *Ptr) Value {
	if p.Obj == nil {
		panic(ex.rtFail("nil-deref", "load through nil pointer"))
	}
	v := p.Obj.V
	for _, i := range p.Path {
		switch c := v.(type) {
		case *StructV:
			v = c.Fields[i]
		case *ArrayV:
			if i < 0 || i >= len(c.Elems) {
				panic(ex.rtFail("index", "index out of range"))
			}
			v = c.Elems[i]
		default:
			panic(unsupported(fmt.Sprintf("navigate into %T", v)))
		}
	}
	if p.Sym != nil {
		arr, ok := v.(*ArrayV)
		if !ok {
			panic(unsupported("symbolic index into non-array"))
		}
		return ex.symIndexLoad(arr, p.Sym)
	}
	return v
}

func (ex *Exec) rawStore(p *Ptr, nv Value) {
	if p.Obj == nil {
		panic(ex.rtFail("nil-deref", "store through nil pointer"))
	}
	if p.Sym != nil {
		panic(unsupported("store through symbolic index"))
	}
	if len(p.Path) == 0 {
		p.Obj.V = nv
		return
	}
	v := p.Obj.V
	for k, i := range p.Path {
		last := k == len(p.Path)-1
		switch c := v.(type) {
		case *StructV:
			if last {
				c.Fields[i] = nv
				return
			}
			v = c.Fields[i]
		case *ArrayV:
			if i < 0 || i >= len(c.Elems) {
				panic(ex.rtFail("index", "index out of range"))
			}
			if last {
				c.Elems[i] = nv
				return
			}
			v = c.Elems[i]
		default:
			panic(unsupported(fmt.Sprintf("navigate into %T", v)))
		}
	}
}

// symIndexLoad reads an array of scalar terms at a symbolic index as an ite chain
// (run-length compressed for constant tables).
func (ex *Exec) symIndexLoad(arr *ArrayV, idx *Term) Value {
	n := len(arr.Elems)
	if n == 0 {
		panic(ex.rtFail("index", "index into empty array"))
	}
	first, ok := arr.Elems[0].(*Term)
	if !ok {
		panic(unsupported("symbolic index into array of non-scalars"))
	}
	// runs
	type run struct {
		start int
		v     *Term
	}
	runs := []run{{0, first}}
	for i := 1; i < n; i++ {
		t, ok := arr.Elems[i].(*Term)
		if !ok {
			panic(unsupported("symbolic index into array of non-scalars"))
		}
		if t != runs[len(runs)-1].v {
			runs = append(runs, run{i, t})
		}
	}
	if len(runs) > 256 {
		panic(unsupported("symbolic index into array with too many distinct runs"))
	}
	res := runs[len(runs)-1].v
	for k := len(runs) - 2; k >= 0; k-- {
		bound := ex.ts.Int(idx.Sort, uint64(runs[k+1].start))
		res = ex.ts.Ite(ex.ts.IntCmp("lt", idx, bound), runs[k].v, res)
	}
	return res
}

// map keys ---------------------------------------------------------------------

func (ex *Exec) keyString(k Value) string {
	switch x := k.(type) {
	case string:
		return "s:" + x
	case *Term:
		if !x.IsConst() {
			panic(unsupported("symbolic map key"))
		}
		return "t:" + x.String()
	case *Ptr:
		return "p:" + x.key()
	case *IfaceV:
		if x.T == nil {
			return "i:nil"
		}
		return "i:" + x.T.String() + ":" + ex.keyString(x.V)
	case *StructV:
		var parts []string
		for _, f := range x.Fields {
			parts = append(parts, ex.keyString(f))
		}
		return "{" + strings.Join(parts, ",") + "}"
	}
	panic(unsupported(fmt.Sprintf("map key of kind %T", k)))
}

func (m *MapV) sortedKeys() []string {
	keys := make([]string, 0, len(m.Entries))
	for k := range m.Entries {
		keys = append(keys, k)
	}
	sort.Strings(keys)
	return keys
}

// equality of values (== on comparable Go values); returns a bool term.
func (ex *Exec) valuesEqual(a, b Value) *Term {
	switch x := a.(type) {
	case *Term:
		y, ok := b.(*Term)
		if !ok {
			return ex.ts.Bool(false)
		}
		if x.Sort.Kind != y.Sort.Kind {
			return ex.ts.Bool(false)
		}
		return ex.ts.Eq(x, y)
	case string:
		y, ok := b.(string)
		return ex.ts.Bool(ok && x == y)
	case *Ptr:
		y, ok := b.(*Ptr)
		if !ok {
			return ex.ts.Bool(false)
		}
		return ex.ts.Bool(x.key() == y.key())
	case *IfaceV:
		y, ok := b.(*IfaceV)
		if !ok {
			return ex.ts.Bool(false)
		}
		if x.T == nil || y.T == nil {
			if x.T == nil && y.T == nil {
				if x.V == nil || y.V == nil {
					return ex.ts.Bool(x.V == nil && y.V == nil)
				}
				return ex.valuesEqual(x.V, y.V) // modelled environment values (contexts, opaque errors)
			}
			return ex.ts.Bool(false)
		}
		if !types.Identical(x.T, y.T) {
			return ex.ts.Bool(false)
		}
		return ex.valuesEqual(x.V, y.V)
	case *StructV:
		y, ok := b.(*StructV)
		if !ok || len(x.Fields) != len(y.Fields) {
			return ex.ts.Bool(false)
		}
		conj := []*Term{}
		for i := range x.Fields {
			conj = append(conj, ex.valuesEqual(x.Fields[i], y.Fields[i]))
		}
		return ex.ts.And(conj...)
	case *ArrayV:
		y, ok := b.(*ArrayV)
		if !ok || len(x.Elems) != len(y.Elems) {
			return ex.ts.Bool(false)
		}
		conj := []*Term{}
		for i := range x.Elems {
			conj = append(conj, ex.valuesEqual(x.Elems[i], y.Elems[i]))
		}
		return ex.ts.And(conj...)
	case *Closure:
		y, ok := b.(*Closure)
		if !ok {
			return ex.ts.Bool(false)
		}
		xn := x.Fn == nil && x.B == nil && x.Intr == ""
		yn := y.Fn == nil && y.B == nil && y.Intr == ""
		if xn || yn {
			return ex.ts.Bool(xn && yn)
		}
		panic(unsupported("comparison of non-nil funcs"))
	case *SliceV:
		y, ok := b.(*SliceV)
		if ok && (x.Arr == nil || y.Arr == nil) {
			return ex.ts.Bool(x.Arr == nil && y.Arr == nil)
		}
	case *MapV:
		y, ok := b.(*MapV)
		if ok && (x.Nil || y.Nil) {
			return ex.ts.Bool(x.Nil && y.Nil)
		}
	case *ChanV:
		y, ok := b.(*ChanV)
		if ok {
			if x.Nil || y.Nil {
				return ex.ts.Bool(x.Nil && y.Nil)
			}
			return ex.ts.Bool(x == y)
		}
	case *CtxV:
		y, ok := b.(*CtxV)
		return ex.ts.Bool(ok && x == y)
	case *OpaqueV:
		y, ok := b.(*OpaqueV)
		return ex.ts.Bool(ok && x == y)
	case nil:
		return ex.ts.Bool(b == nil)
	}
	panic(unsupported(fmt.Sprintf("equality of %T and %T", a, b)))
}
