package main

import (
	"encoding/json"
	"fmt"
	"go/ast"
	"go/parser"
	"go/token"
	"os"
	"path/filepath"
	"runtime/debug"
	"sort"
	"strconv"
	"strings"
	"sync"
	"time"

	"golang.org/x/tools/go/packages"
	"golang.org/x/tools/go/ssa"
	"golang.org/x/tools/go/ssa/ssautil"
)

const modPath = "github.com/platinummonkey/go-concurrency-limits"

type Harness struct {
	Name       string
	Pkg        string // directory relative to the repo root
	File       string
	Property   string
	Mode       Mode
	Tier       string // "quick" (runs in both tiers) or "thorough"
	Unwind     int
	OblTO      time.Duration
	FeasTO     time.Duration
	Blocked    string // "end" | "violation"
	Solver     string
	Portfolio  bool
	MaxSteps   int
	MaxPaths   int
	NoF2ICheck bool
	NoMono     bool
	NoTimers   bool
	Conc       bool
	Workers    int
	RunTier    string
	confirmed  sync.Map
	Doc        string
	Opts       map[string]string
}

type Config struct {
	Repo     string
	Verif    string
	Tmp      string
	Tier     string
	Seed     int64
	Jobs     int
	Verbose  bool
	OnlyH    string
	NoReplay bool
	DumpSMT  string
}

func discoverHarnesses(cfg *Config) ([]*Harness, map[string][]byte, error) {
	overlay := map[string][]byte{}
	var hs []*Harness
	root := filepath.Join(cfg.Verif, "harness")
	err := filepath.Walk(root, func(path string, info os.FileInfo, err error) error {
		if err != nil || info.IsDir() || !strings.HasSuffix(path, ".go") {
			return err
		}
		rel, _ := filepath.Rel(root, filepath.Dir(path))
		src, err := os.ReadFile(path)
		if err != nil {
			return err
		}
		target := filepath.Join(cfg.Repo, rel, "zz_verif_"+filepath.Base(path))
		if rel == "zz_verifrt" {
			target = filepath.Join(cfg.Repo, rel, filepath.Base(path))
		}
		overlay[target] = src
		more, err := parseHarnessSource(path, rel, src)
		if err != nil {
			return err
		}
		hs = append(hs, more...)
		return nil
	})
	sort.Slice(hs, func(i, j int) bool { return hs[i].Name < hs[j].Name })
	return hs, overlay, err
}

func parseHarnessSource(path, rel string, src []byte) ([]*Harness, error) {
	var hs []*Harness
	{
		fset := token.NewFileSet()
		f, err := parser.ParseFile(fset, path, src, parser.ParseComments)
		if err != nil {
			return nil, fmt.Errorf("parse %s: %v", path, err)
		}
		for _, d := range f.Decls {
			fd, ok := d.(*ast.FuncDecl)
			if !ok || fd.Doc == nil || fd.Recv != nil {
				continue
			}
			for _, c := range fd.Doc.List {
				if !strings.HasPrefix(c.Text, "//verif:harness") {
					continue
				}
				h := &Harness{Name: fd.Name.Name, Pkg: rel, File: path, Tier: "quick", Unwind: 8, OblTO: 60 * time.Second,
					FeasTO: 3 * time.Second, Blocked: "end", MaxSteps: 2000000, MaxPaths: 20000, Opts: map[string]string{}, Doc: strings.TrimSpace(fd.Doc.Text())}
				for _, kv := range strings.Fields(c.Text)[1:] {
					i := strings.Index(kv, "=")
					if i < 0 {
						continue
					}
					k, v := kv[:i], kv[i+1:]
					h.Opts[k] = v
					switch k {
					case "property":
						h.Property = v
					case "theory":
						if v == "real" {
							h.Mode = ModeReal
						}
					case "tier":
						h.Tier = v
					case "unwind":
						h.Unwind, _ = strconv.Atoi(v)
					case "timeout":
						n, _ := strconv.Atoi(v)
						h.OblTO = time.Duration(n) * time.Second
					case "feastimeout":
						n, _ := strconv.Atoi(v)
						h.FeasTO = time.Duration(n) * time.Second
					case "blocked":
						h.Blocked = v
					case "solver":
						h.Solver = v
					case "portfolio":
						h.Portfolio = v == "1"
					case "nof2i":
						h.NoF2ICheck = v == "1"
					case "nomono":
						h.NoMono = v == "1"
					case "conc":
						h.Conc = v == "1"
					case "timers":
						h.NoTimers = v == "off"
					case "maxpaths":
						h.MaxPaths, _ = strconv.Atoi(v)
					}
				}
				hs = append(hs, h)
			}
		}
	}
	return hs, nil
}

type Loaded struct {
	prog *ssa.Program
	pkgs map[string]*ssa.Package // by repo-relative dir
	fset *token.FileSet
}

func goEnv(cfg *Config) []string {
	env := os.Environ()
	env = append(env, "GOFLAGS=-mod=mod", "GOPROXY=off", "GOSUMDB=off", "GOTOOLCHAIN=local", "GOWORK=off")
	return env
}

func prepareModfile(cfg *Config) (string, error) {
	dst := filepath.Join(cfg.Tmp, "go.mod")
	for _, f := range []string{"go.mod", "go.sum"} {
		b, err := os.ReadFile(filepath.Join(cfg.Repo, f))
		if err != nil {
			return "", err
		}
		if err := os.WriteFile(filepath.Join(cfg.Tmp, f), b, 0644); err != nil {
			return "", err
		}
	}
	return dst, nil
}

func loadProgram(cfg *Config, overlay map[string][]byte, dirs []string) (*Loaded, error) {
	modfile, err := prepareModfile(cfg)
	if err != nil {
		return nil, err
	}
	pcfg := &packages.Config{
		Mode: packages.NeedName | packages.NeedFiles | packages.NeedCompiledGoFiles | packages.NeedImports | packages.NeedDeps |
			packages.NeedTypes | packages.NeedSyntax | packages.NeedTypesInfo | packages.NeedTypesSizes | packages.NeedModule,
		Dir:        cfg.Repo,
		Overlay:    overlay,
		BuildFlags: []string{"-tags=verif", "-modfile=" + modfile},
		Env:        goEnv(cfg),
	}
	var patterns []string
	for _, d := range dirs {
		patterns = append(patterns, "./"+d)
	}
	pkgs, err := packages.Load(pcfg, patterns...)
	if err != nil {
		return nil, err
	}
	var errs []string
	packages.Visit(pkgs, nil, func(p *packages.Package) {
		for _, e := range p.Errors {
			errs = append(errs, e.Error())
		}
	})
	if len(errs) > 0 {
		return nil, fmt.Errorf("package load errors:\n%s", strings.Join(errs, "\n"))
	}
	prog, spkgs := ssautil.AllPackages(pkgs, ssa.InstantiateGenerics)
	prog.Build()
	ld := &Loaded{prog: prog, pkgs: map[string]*ssa.Package{}}
	for i, p := range pkgs {
		rel := strings.TrimPrefix(strings.TrimPrefix(p.PkgPath, modPath), "/")
		ld.pkgs[rel] = spkgs[i]
	}
	return ld, nil
}

// expectedIDs scans the harness SSA for Assert/Reach ids (vacuity check).
func expectedIDs(fn *ssa.Function) (asserts, reaches []string) {
	seen := map[*ssa.Function]bool{}
	var walk func(f *ssa.Function)
	walk = func(f *ssa.Function) {
		if f == nil || seen[f] || f.Blocks == nil {
			return
		}
		seen[f] = true
		for _, b := range f.Blocks {
			for _, ins := range b.Instrs {
				if mc, ok := ins.(*ssa.MakeClosure); ok {
					walk(mc.Fn.(*ssa.Function))
				}
				c, ok := ins.(ssa.CallInstruction)
				if !ok {
					continue
				}
				callee := c.Common().StaticCallee()
				if callee == nil {
					continue
				}
				n := callee.String()
				if n == rtPkg+"Assert" || n == rtPkg+"Reach" {
					if k, ok := c.Common().Args[0].(*ssa.Const); ok {
						id := strings.Trim(k.Value.ExactString(), "\"")
						if n == rtPkg+"Assert" {
							asserts = append(asserts, id)
						} else {
							reaches = append(reaches, id)
						}
					}
				} else if strings.Contains(n, "zz_verif") || (callee.Pkg == f.Pkg && strings.HasPrefix(callee.Name(), "verif")) {
					walk(callee)
				}
			}
		}
	}
	walk(fn)
	return
}

func runHarness(cfg *Config, ld *Loaded, h *Harness, known []*Finding) (res *HarnessResult) {
	t0 := time.Now()
	res = &HarnessResult{H: h, Obls: map[string]*OblStat{}, Reaches: map[string]int{}, Funcs: map[string]bool{}, Stubs: map[string]bool{}, UnwindFail: map[string]bool{}}
	defer func() { res.Wall = time.Since(t0) }()
	pkg := ld.pkgs[h.Pkg]
	if pkg == nil {
		res.Errors = append(res.Errors, "package not loaded: "+h.Pkg)
		return
	}
	fn := pkg.Func(h.Name)
	if fn == nil {
		res.Errors = append(res.Errors, "harness function not found: "+h.Name)
		return
	}
	res.ExpectedIDs, res.ExpectedReach = expectedIDs(fn)
	kind := SolverZ3
	if h.Mode == ModeReal {
		kind = SolverZ3New
	}
	switch h.Solver {
	case "z3":
		kind = SolverZ3
	case "z3new":
		kind = SolverZ3New
	case "cvc5":
		kind = SolverCVC5
	}
	solver, err := StartSolverTO(kind, h.FeasTO)
	if err != nil {
		res.Errors = append(res.Errors, "cannot start solver: "+err.Error())
		return
	}
	defer solver.Close()
	if cfg.DumpSMT != "" {
		f, _ := os.Create(filepath.Join(cfg.DumpSMT, h.Name+".smt2"))
		defer f.Close()
		solver.Log = f
	}
	// parallel exploration of the path worklist: one solver process per worker
	workers := h.Workers
	if workers < 1 {
		workers = 1
	}
	var mu sync.Mutex
	pending := [][]int{{}}
	active := 0
	started := 0
	cond := sync.NewCond(&mu)
	push := func(p []int) {
		mu.Lock()
		pending = append(pending, p)
		mu.Unlock()
		cond.Signal()
	}
	parts := make([]*HarnessResult, workers)
	var wg sync.WaitGroup
	for w := 0; w < workers; w++ {
		wg.Add(1)
		go func(w int) {
			defer wg.Done()
			part := &HarnessResult{H: h, Obls: map[string]*OblStat{}, Reaches: map[string]int{}, Funcs: map[string]bool{}, Stubs: map[string]bool{}, UnwindFail: map[string]bool{}}
			parts[w] = part
			var sv *Solver
			if w == 0 {
				sv = solver
			}
			defer func() {
				if w > 0 && sv != nil {
					sv.Close()
				}
			}()
			for {
				mu.Lock()
				for len(pending) == 0 && active > 0 {
					cond.Wait()
				}
				if len(pending) == 0 {
					mu.Unlock()
					cond.Broadcast()
					return
				}
				prefix := pending[len(pending)-1]
				pending = pending[:len(pending)-1]
				if started >= h.MaxPaths {
					mu.Unlock()
					part.Inconclusive = append(part.Inconclusive, fmt.Sprintf("%s: path budget %d exhausted", h.Name, h.MaxPaths))
					cond.Broadcast()
					return
				}
				started++
				active++
				mu.Unlock()
				part.Paths++
				ctlPush := push
				pathSlots <- struct{}{}
				if sv == nil {
					var err error
					sv, err = StartSolverTO(kind, h.FeasTO)
					if err != nil {
						part.Errors = append(part.Errors, "cannot start solver: "+err.Error())
					}
				}
				if sv != nil {
					runPath(cfg, ld, h, fn, sv, part, known, prefix, ctlPush)
				}
				<-pathSlots
				mu.Lock()
				active--
				stop := len(part.Errors) > 0
				if stop {
					pending = nil
				}
				mu.Unlock()
				cond.Broadcast()
				if stop {
					return
				}
			}
		}(w)
	}
	wg.Wait()
	for _, p := range parts {
		if p != nil {
			res.merge(p)
		}
	}
	return
}

func (r *HarnessResult) merge(p *HarnessResult) {
	r.Paths += p.Paths
	r.PathsPruned += p.PathsPruned
	r.Queries += p.Queries
	r.SolverTime += p.SolverTime
	r.FpOps += p.FpOps
	r.Blocked += p.Blocked
	r.UnwindCuts += p.UnwindCuts
	r.FeasibleCombos += p.FeasibleCombos
	r.RacePairs += p.RacePairs
	r.PassBoundHit += p.PassBoundHit
	r.RacePathCaps += p.RacePathCaps
	r.ConcCombos += p.ConcCombos
	r.PrunedCombos += p.PrunedCombos
	r.PrunedPrefixes += p.PrunedPrefixes
	r.PartialQueries += p.PartialQueries
	r.Events += p.Events
	r.Candidates = append(r.Candidates, p.Candidates...)
	r.Inconclusive = append(r.Inconclusive, p.Inconclusive...)
	r.Errors = append(r.Errors, p.Errors...)
	r.Winners = append(r.Winners, p.Winners...)
	for k, v := range p.Reaches {
		r.Reaches[k] += v
	}
	for k := range p.Funcs {
		r.Funcs[k] = true
	}
	for k := range p.Stubs {
		r.Stubs[k] = true
	}
	for k := range p.UnwindFail {
		r.UnwindFail[k] = true
	}
	for _, s := range p.Samples {
		if len(r.Samples) < 3 {
			r.Samples = append(r.Samples, s)
		}
	}
	for id, o := range p.Obls {
		t, ok := r.Obls[id]
		if !ok {
			r.Obls[id] = o
			continue
		}
		t.Posed += o.Posed
		t.Discharged += o.Discharged
		t.Trivial += o.Trivial
		t.Nontrivial += o.Nontrivial
		t.PathDependent += o.PathDependent
		t.Reached += o.Reached
		t.SolverMs += o.SolverMs
		for k := range o.Pos {
			t.Pos[k] = true
		}
		if t.Sample == "" {
			t.Sample = o.Sample
		}
	}
}

func newExec(ld *Loaded, h *Harness, solver *Solver, res *HarnessResult, known []*Finding, prefix []int, push func([]int)) *Exec {
	ts := NewTS()
	r := NewRenderer(h.Mode)
	r.NoMono = h.NoMono
	ex := &Exec{prog: ld.prog, ts: ts, h: h, globals: map[*ssa.Global]*Object{}, locks: map[string]*lockState{},
		funcs: res.Funcs, stubs: res.Stubs, ghost: map[string]Value{}, forkCnt: map[ssa.Instruction]int{}, initDone: map[*ssa.Package]bool{}}
	ex.ctl = &PathCtl{prefix: append([]int{}, prefix...), push: push}
	ex.ld = ld
	ex.sess = &Session{solver: solver, r: r, ts: ts, ex: ex, res: res, feasTO: h.FeasTO, oblTO: h.OblTO, known: known}
	if solver != nil {
		ex.sess.lastRestarts = solver.restarts
	}
	return ex
}

func runPath(cfg *Config, ld *Loaded, h *Harness, fn *ssa.Function, solver *Solver, res *HarnessResult, known []*Finding, prefix []int, push func([]int)) {
	ex := newExec(ld, h, solver, res, known, prefix, push)
	ex.sess.Begin()
	defer func() {
		res.FpOps += ex.sess.r.FpOps
		if r := recover(); r != nil {
			switch e := r.(type) {
			case pathEnd:
				if cfg.Verbose {
					fmt.Fprintf(os.Stderr, "  [%s] path %v ended: %s\n", h.Name, ex.ctl.trace, e.reason)
				}
				if e.reason == "assumption infeasible" {
					res.PathsPruned++
				}
				if ex.conc != nil && ex.conc.final != nil && ex.conc.mode == "final" && strings.Contains(e.reason, "violated on every input") {
					// the quiescent phase ended at a definitely-false assertion: it is still an
					// obligation of the composed system
					func() {
						defer func() {
							if r2 := recover(); r2 != nil {
								res.Errors = append(res.Errors, fmt.Sprintf("%s: engine panic in composition: %v", h.Name, r2))
							}
						}()
						ex.composeAndCheck()
					}()
				}
			case goBlocked:
				res.Blocked++
				if h.Blocked == "violation" {
					ex.sess.Obligation("blocked-forever", "liveness", ex.ts.Bool(false), ex.curPos(), e.why)
				}
			case unsupportedErr:
				res.Errors = append(res.Errors, fmt.Sprintf("%s: unsupported: %s (at %s; %s)", h.Name, e.msg, ex.curPos(), ex.stack()))
			default:
				res.Errors = append(res.Errors, fmt.Sprintf("%s: engine panic: %v\n%s", h.Name, r, debug.Stack()))
			}
		}
	}()
	ex.callFunction(fn, nil, nil)
	if ex.conc != nil && ex.conc.final != nil {
		ex.composeAndCheck()
		return
	}
	// end-of-path side conditions
	ex.endOfPathChecks()
	if len(res.Samples) < 3 {
		res.Samples = append(res.Samples, map[string]interface{}{"harness": h.Name, "path": fmt.Sprint(ex.ctl.trace), "symbolic_inputs": nondetNames(ex), "choices": ex.sess.choices})
	}
}

func nondetNames(ex *Exec) []string {
	var out []string
	for _, n := range ex.nondets {
		out = append(out, n.Name+":"+n.Sort.String())
	}
	return out
}

func (ex *Exec) endOfPathChecks() {
	// lock leaks
	for k, ls := range ex.locks {
		if ls.w != 0 || ls.r != 0 {
			ex.sess.Obligation("rt:lock-leak", "runtime", ex.ts.Bool(false), ex.curPos(), "lock "+k+" still held when the harness returned")
		}
	}
	// tier R: integer range side conditions (soundness of the unbounded-integer encoding)
	if ex.sess.r.mode == ModeReal && len(ex.sess.r.RangeConds) > 0 {
		q := "(assert (not (and " + strings.Join(ex.sess.r.RangeConds, " ") + ")))\n"
		ans := ex.sess.query(q, ex.sess.oblTO)
		if ans == "unknown" && ex.sess.solverRestarted() {
			ex.sess.res.Inconclusive = append(ex.sess.res.Inconclusive, ex.h.Name+": integer range side condition: timeout")
			return
		}
		ex.sess.endQuery()
		if ans != "unsat" {
			ex.sess.res.Inconclusive = append(ex.sess.res.Inconclusive, ex.h.Name+": tier-R integer range side condition not discharged ("+firstLine(ans)+") on path "+fmt.Sprint(ex.ctl.trace))
		}
	}
}

// ---------------------------------------------------------------------------
// findings

type Finding struct {
	Status    string          `json:"status"` // known | fixed
	Property  string          `json:"property"`
	Harness   string          `json:"harness"`
	Assertion string          `json:"assertion"`
	Class     map[string]bool `json:"class"`
	Commit    string          `json:"commit,omitempty"`
	What      string          `json:"what"`
	hit       int
}

func loadFindings(cfg *Config) ([]*Finding, error) {
	b, err := os.ReadFile(filepath.Join(cfg.Verif, "findings", "known_findings.json"))
	if err != nil {
		if os.IsNotExist(err) {
			return nil, nil
		}
		return nil, err
	}
	var fs []*Finding
	if err := json.Unmarshal(b, &fs); err != nil {
		return nil, err
	}
	return fs, nil
}

func matchKnown(known []*Finding, c *Candidate) *Finding {
	for _, k := range known {
		if k.Status != "known" || k.Property != c.Property {
			continue
		}
		if k.Harness != "*" && k.Harness != c.Harness {
			continue
		}
		if k.Assertion != "*" && k.Assertion != c.OblID {
			continue
		}
		ok := true
		for name, want := range k.Class {
			got, present := c.Classes[name]
			if !present || got != want {
				ok = false
			}
		}
		if ok {
			return k
		}
	}
	return nil
}

// ---------------------------------------------------------------------------

var pathSlots chan struct{}

var printMu sync.Mutex

func logf(format string, a ...interface{}) {
	printMu.Lock()
	fmt.Fprintf(os.Stderr, format, a...)
	printMu.Unlock()
}
