package main

// Term DAG with hash-consing and constant folding.  Integer terms carry the Go
// width and signedness; floating-point terms are abstract (rendered either as
// IEEE-754 Float64 in the bit-precise tier or as rounded reals in tier R).

import (
	"fmt"
	"math"
	"math/bits"
	"strings"
	"sync"
)

type SortKind int

const (
	KBool SortKind = iota
	KInt
	KFloat
)

type Sort struct {
	Kind   SortKind
	Width  int
	Signed bool
}

var SBool = Sort{Kind: KBool}
var SFloat = Sort{Kind: KFloat}

func SInt(w int, signed bool) Sort { return Sort{KInt, w, signed} }

func (s Sort) String() string {
	switch s.Kind {
	case KBool:
		return "bool"
	case KFloat:
		return "f64"
	}
	if s.Signed {
		return fmt.Sprintf("i%d", s.Width)
	}
	return fmt.Sprintf("u%d", s.Width)
}

type Term struct {
	ID   int
	Op   string // "const","var", or operator
	Args []*Term
	Sort Sort
	U    uint64  // int const (masked to width) / bool const (0,1)
	F    float64 // float const
	Name string  // var name
}

func (t *Term) IsConst() bool { return t.Op == "const" }
func (t *Term) IsTrue() bool  { return t.Op == "const" && t.Sort.Kind == KBool && t.U == 1 }
func (t *Term) IsFalse() bool { return t.Op == "const" && t.Sort.Kind == KBool && t.U == 0 }

// SignedVal returns the mathematical value of an integer constant.
func (t *Term) SignedVal() int64 {
	if t.Sort.Signed {
		return sext(t.U, t.Sort.Width)
	}
	return int64(t.U)
}

func mask(w int) uint64 {
	if w >= 64 {
		return ^uint64(0)
	}
	return (uint64(1) << uint(w)) - 1
}
func sext(u uint64, w int) int64 {
	if w >= 64 {
		return int64(u)
	}
	sh := uint(64 - w)
	return int64(u<<sh) >> sh
}

type TS struct {
	tab   map[string]*Term
	next  int
	Vars  []*Term
	varBy map[string]*Term
	mu    sync.Mutex // terms are also created by the parallel combination workers of the concurrent mode
}

func NewTS() *TS { return &TS{tab: map[string]*Term{}, varBy: map[string]*Term{}} }

func (ts *TS) intern(t *Term) *Term {
	ts.mu.Lock()
	defer ts.mu.Unlock()
	var sb strings.Builder
	sb.WriteString(t.Op)
	sb.WriteByte('|')
	sb.WriteString(t.Sort.String())
	sb.WriteByte('|')
	switch t.Op {
	case "const":
		if t.Sort.Kind == KFloat {
			fmt.Fprintf(&sb, "%x", math.Float64bits(t.F))
		} else {
			fmt.Fprintf(&sb, "%x", t.U)
		}
	case "var":
		sb.WriteString(t.Name)
	default:
		for _, a := range t.Args {
			fmt.Fprintf(&sb, "%d,", a.ID)
		}
	}
	k := sb.String()
	if e, ok := ts.tab[k]; ok {
		return e
	}
	ts.next++
	t.ID = ts.next
	ts.tab[k] = t
	return t
}

func (ts *TS) Bool(b bool) *Term {
	u := uint64(0)
	if b {
		u = 1
	}
	return ts.intern(&Term{Op: "const", Sort: SBool, U: u})
}
func (ts *TS) Int(s Sort, v uint64) *Term {
	return ts.intern(&Term{Op: "const", Sort: s, U: v & mask(s.Width)})
}
func (ts *TS) IntS(s Sort, v int64) *Term { return ts.Int(s, uint64(v)) }
func (ts *TS) Float(f float64) *Term {
	return ts.intern(&Term{Op: "const", Sort: SFloat, F: f})
}
func (ts *TS) Var(name string, s Sort) *Term {
	if v, ok := ts.varBy[name]; ok {
		if v.Sort != s {
			panic(fmt.Sprintf("var %s redeclared with different sort", name))
		}
		return v
	}
	v := ts.intern(&Term{Op: "var", Sort: s, Name: name})
	ts.varBy[name] = v
	ts.Vars = append(ts.Vars, v)
	return v
}

// FreshVar makes a variable with a unique suffix.
func (ts *TS) FreshVar(prefix string, s Sort) *Term {
	for i := 0; ; i++ {
		n := fmt.Sprintf("%s!%d", prefix, i)
		if _, ok := ts.varBy[n]; !ok {
			return ts.Var(n, s)
		}
	}
}

func (ts *TS) mk(op string, s Sort, args ...*Term) *Term {
	return ts.intern(&Term{Op: op, Sort: s, Args: args})
}

// ---------- booleans ----------

func (ts *TS) Not(a *Term) *Term {
	if a.IsConst() {
		return ts.Bool(a.U == 0)
	}
	if a.Op == "not" {
		return a.Args[0]
	}
	return ts.mk("not", SBool, a)
}
func (ts *TS) And(xs ...*Term) *Term {
	var out []*Term
	seen := map[int]bool{}
	for _, x := range xs {
		if x.IsFalse() {
			return x
		}
		if x.IsTrue() || seen[x.ID] {
			continue
		}
		seen[x.ID] = true
		if x.Op == "and" {
			for _, y := range x.Args {
				if !seen[y.ID] {
					seen[y.ID] = true
					out = append(out, y)
				}
			}
			continue
		}
		out = append(out, x)
	}
	if len(out) == 0 {
		return ts.Bool(true)
	}
	if len(out) == 1 {
		return out[0]
	}
	return ts.mk("and", SBool, out...)
}
func (ts *TS) Or(xs ...*Term) *Term {
	var out []*Term
	seen := map[int]bool{}
	for _, x := range xs {
		if x.IsTrue() {
			return x
		}
		if x.IsFalse() || seen[x.ID] {
			continue
		}
		seen[x.ID] = true
		out = append(out, x)
	}
	if len(out) == 0 {
		return ts.Bool(false)
	}
	if len(out) == 1 {
		return out[0]
	}
	return ts.mk("or", SBool, out...)
}
func (ts *TS) Implies(a, b *Term) *Term { return ts.Or(ts.Not(a), b) }
func (ts *TS) Ite(c, a, b *Term) *Term {
	if c.IsTrue() {
		return a
	}
	if c.IsFalse() {
		return b
	}
	if a == b {
		return a
	}
	if a.Sort != b.Sort {
		panic(fmt.Sprintf("ite sort mismatch %v %v", a.Sort, b.Sort))
	}
	if a.Sort.Kind == KBool {
		if a.IsTrue() && b.IsFalse() {
			return c
		}
		if a.IsFalse() && b.IsTrue() {
			return ts.Not(c)
		}
	}
	return ts.mk("ite", a.Sort, c, a, b)
}

// ---------- integers ----------

func (ts *TS) checkInt(a, b *Term) {
	if a.Sort.Kind != KInt || b.Sort.Kind != KInt || a.Sort.Width != b.Sort.Width {
		panic(fmt.Sprintf("int sort mismatch %v %v", a.Sort, b.Sort))
	}
}

// IntBin builds an arithmetic/bitwise op: add sub mul div rem and or xor andnot shl shr
func (ts *TS) IntBin(op string, a, b *Term) *Term {
	if op != "shl" && op != "shr" {
		ts.checkInt(a, b)
	}
	s := a.Sort
	w := s.Width
	if a.IsConst() && b.IsConst() {
		x, y := a.U, b.U
		var r uint64
		switch op {
		case "add":
			r = x + y
		case "sub":
			r = x - y
		case "mul":
			r = x * y
		case "div":
			if y == 0 {
				goto sym
			}
			if s.Signed {
				r = uint64(sext(x, w) / sext(y, w))
			} else {
				r = x / y
			}
		case "rem":
			if y == 0 {
				goto sym
			}
			if s.Signed {
				r = uint64(sext(x, w) % sext(y, w))
			} else {
				r = x % y
			}
		case "and":
			r = x & y
		case "or":
			r = x | y
		case "xor":
			r = x ^ y
		case "andnot":
			r = x &^ y
		case "shl":
			if y >= uint64(w) {
				r = 0
			} else {
				r = x << y
			}
		case "shr":
			if s.Signed {
				sh := y
				if sh >= uint64(w) {
					sh = uint64(w - 1)
				}
				r = uint64(sext(x, w) >> sh)
			} else if y >= uint64(w) {
				r = 0
			} else {
				r = x >> y
			}
		default:
			panic("intbin " + op)
		}
		return ts.Int(s, r)
	}
sym:
	// light simplifications
	switch op {
	case "add":
		if a.IsConst() && a.U == 0 {
			return b
		}
		if b.IsConst() && b.U == 0 {
			return a
		}
	case "sub":
		if b.IsConst() && b.U == 0 {
			return a
		}
	case "mul":
		if a.IsConst() && a.U == 1 {
			return b
		}
		if b.IsConst() && b.U == 1 {
			return a
		}
	}
	return ts.mk(op, s, a, b)
}
func (ts *TS) IntNeg(a *Term) *Term {
	if a.IsConst() {
		return ts.Int(a.Sort, -a.U)
	}
	return ts.mk("neg", a.Sort, a)
}
func (ts *TS) IntCompl(a *Term) *Term {
	if a.IsConst() {
		return ts.Int(a.Sort, ^a.U)
	}
	return ts.mk("compl", a.Sort, a)
}

// IntCmp: op in eq lt le (signedness from sort)
func (ts *TS) IntCmp(op string, a, b *Term) *Term {
	ts.checkInt(a, b)
	if a.IsConst() && b.IsConst() {
		var r bool
		if a.Sort.Signed {
			x, y := a.SignedVal(), b.SignedVal()
			switch op {
			case "eq":
				r = x == y
			case "lt":
				r = x < y
			case "le":
				r = x <= y
			}
		} else {
			switch op {
			case "eq":
				r = a.U == b.U
			case "lt":
				r = a.U < b.U
			case "le":
				r = a.U <= b.U
			}
		}
		return ts.Bool(r)
	}
	if a == b {
		return ts.Bool(op != "lt")
	}
	return ts.mk("i"+op, SBool, a, b)
}

// Conv converts an integer term to another integer sort with Go semantics.
func (ts *TS) Conv(a *Term, to Sort) *Term {
	if a.Sort == to {
		return a
	}
	if a.IsConst() {
		var v uint64
		if a.Sort.Signed {
			v = uint64(sext(a.U, a.Sort.Width))
		} else {
			v = a.U
		}
		return ts.Int(to, v)
	}
	return ts.mk("conv", to, a)
}

// ---------- floats ----------

func (ts *TS) FBin(op string, a, b *Term) *Term {
	if a.Sort.Kind != KFloat || b.Sort.Kind != KFloat {
		panic("fbin sort")
	}
	if a.IsConst() && b.IsConst() {
		var r float64
		switch op {
		case "fadd":
			r = a.F + b.F
		case "fsub":
			r = a.F - b.F
		case "fmul":
			r = a.F * b.F
		case "fdiv":
			r = a.F / b.F
		case "fmax":
			r = math.Max(a.F, b.F)
		case "fmin":
			r = math.Min(a.F, b.F)
		default:
			panic("fbin " + op)
		}
		return ts.Float(r)
	}
	return ts.mk(op, SFloat, a, b)
}
func (ts *TS) FUn(op string, a *Term) *Term {
	if a.IsConst() {
		var r float64
		switch op {
		case "fneg":
			r = -a.F
		case "fabs":
			r = math.Abs(a.F)
		case "fceil":
			r = math.Ceil(a.F)
		case "ffloor":
			r = math.Floor(a.F)
		case "ftrunc":
			r = math.Trunc(a.F)
		case "fround":
			r = math.Round(a.F)
		case "fsqrt":
			r = math.Sqrt(a.F)
		case "flog10":
			r = math.Log10(a.F)
		default:
			panic("fun " + op)
		}
		return ts.Float(r)
	}
	return ts.mk(op, SFloat, a)
}

// FCmp: op in feq flt fle (IEEE: false if NaN involved)
func (ts *TS) FCmp(op string, a, b *Term) *Term {
	if a.IsConst() && b.IsConst() {
		var r bool
		switch op {
		case "feq":
			r = a.F == b.F
		case "flt":
			r = a.F < b.F
		case "fle":
			r = a.F <= b.F
		}
		return ts.Bool(r)
	}
	return ts.mk(op, SBool, a, b)
}
func (ts *TS) FIsNaN(a *Term) *Term {
	if a.IsConst() {
		return ts.Bool(math.IsNaN(a.F))
	}
	return ts.mk("fisnan", SBool, a)
}
func (ts *TS) FIsInf(a *Term) *Term {
	if a.IsConst() {
		return ts.Bool(math.IsInf(a.F, 0))
	}
	return ts.mk("fisinf", SBool, a)
}
func (ts *TS) I2F(a *Term) *Term {
	if a.IsConst() {
		if a.Sort.Signed {
			return ts.Float(float64(a.SignedVal()))
		}
		return ts.Float(float64(a.U))
	}
	return ts.mk("i2f", SFloat, a)
}

// F2I: Go conversion float64 -> integer sort (truncation toward zero).
func (ts *TS) F2I(a *Term, to Sort) *Term {
	if a.IsConst() {
		f := a.F
		if !math.IsNaN(f) && !math.IsInf(f, 0) {
			if to.Signed && f > -9.3e18 && f < 9.2e18 {
				return ts.IntS(to, int64(f))
			}
			if !to.Signed && f >= 0 && f < 1.8e19 {
				return ts.Int(to, uint64(f))
			}
		}
		if to.Signed {
			return ts.IntS(to, math.MinInt64) // amd64 behaviour
		}
		return ts.Int(to, 1<<63)
	}
	return ts.mk("f2i", to, a)
}

// Eq for any sort (floats: IEEE equality)
func (ts *TS) Eq(a, b *Term) *Term {
	switch a.Sort.Kind {
	case KBool:
		if a.IsConst() && b.IsConst() {
			return ts.Bool(a.U == b.U)
		}
		if a == b {
			return ts.Bool(true)
		}
		if b.IsConst() {
			a, b = b, a
		}
		if a.IsTrue() {
			return b
		}
		if a.IsFalse() {
			return ts.Not(b)
		}
		return ts.mk("beq", SBool, a, b)
	case KInt:
		return ts.IntCmp("eq", a, b)
	default:
		return ts.FCmp("feq", a, b)
	}
}

// ---------- utilities ----------

func (t *Term) String() string { return termString(t, 0) }

func termString(t *Term, depth int) string {
	switch t.Op {
	case "const":
		switch t.Sort.Kind {
		case KBool:
			return fmt.Sprint(t.U == 1)
		case KFloat:
			return fmt.Sprint(t.F)
		default:
			if t.Sort.Signed {
				return fmt.Sprint(t.SignedVal())
			}
			return fmt.Sprint(t.U)
		}
	case "var":
		return t.Name
	}
	if depth > 6 {
		return fmt.Sprintf("t%d", t.ID)
	}
	var sb strings.Builder
	sb.WriteString("(" + t.Op)
	for _, a := range t.Args {
		sb.WriteString(" " + termString(a, depth+1))
	}
	sb.WriteString(")")
	return sb.String()
}

// HasVars reports whether the term mentions any symbolic variable.
func HasVars(t *Term) bool {
	seen := map[int]bool{}
	var rec func(*Term) bool
	rec = func(x *Term) bool {
		if seen[x.ID] {
			return false
		}
		seen[x.ID] = true
		if x.Op == "var" {
			return true
		}
		for _, a := range x.Args {
			if rec(a) {
				return true
			}
		}
		return false
	}
	return rec(t)
}

// VarIDs returns the IDs of the variable terms occurring in t.
func VarIDs(t *Term) map[int]bool {
	out := map[int]bool{}
	seen := map[int]bool{}
	var rec func(*Term)
	rec = func(x *Term) {
		if x == nil || seen[x.ID] {
			return
		}
		seen[x.ID] = true
		if x.Op == "var" {
			out[x.ID] = true
		}
		for _, a := range x.Args {
			rec(a)
		}
	}
	rec(t)
	return out
}

var _ = bits.Len64
