package main

// SMT-LIB2 rendering of terms (two modes) and solver process management.

import (
	"bufio"
	"fmt"
	"io"
	"math"
	"math/big"
	"os/exec"
	"strconv"
	"strings"
	"sync"
	"time"
)

type Mode int

const (
	ModeBV   Mode = iota // ints = bit-vectors, floats = IEEE Float64 (tier B)
	ModeReal             // ints = mathematical Int (+range side conditions), floats = rounded reals (tier R)
)

func (m Mode) String() string {
	if m == ModeBV {
		return "bv+fp(bit-precise)"
	}
	return "int+rounded-real(tier R)"
}

// Renderer turns terms into SMT-LIB text incrementally for one solver context.
type Renderer struct {
	mode    Mode
	emitted map[int]string // term id -> smt name/literal
	buf     strings.Builder
	// tier R bookkeeping
	family    []famMember
	anchorSet map[string]bool
	// side conditions (ModeReal): integer results must stay in range of their Go type
	RangeConds []string
	NoMono     bool
	FpOps      int
	Axioms     []Axiom
	anchors    []float64
	i2fs       [][2]string
	emitLog    []int
	grid       []gridNode
}

// gridNode: a rounded operation whose result is bounded at the anchor grid by bit-exact
// native evaluation (monotone rounding: a>=p & b>=q => rnd(a+b) >= fl(p+q), fl computed in Go).
type gridNode struct {
	op        string
	res, a, b string
	ca, cb    *float64
}

type famMember struct {
	e, v    string
	rounded bool
	linear  bool
}

type Axiom struct {
	Level int
	Text  string
}

func NewRenderer(mode Mode) *Renderer {
	r := &Renderer{mode: mode, emitted: map[int]string{}, anchorSet: map[string]bool{}}
	return r
}

func (r *Renderer) Prelude() string {
	var sb strings.Builder
	sb.WriteString("(set-option :produce-models true)\n")
	if r.mode == ModeReal {
		sb.WriteString("(define-fun absr ((x Real)) Real (ite (>= x 0.0) x (- x)))\n")
		sb.WriteString("(define-fun trunci ((x Real)) Int (ite (>= x 0.0) (to_int x) (- (to_int (- x)))))\n")
		sb.WriteString("(define-fun ceili ((x Real)) Int (- (to_int (- x))))\n")
		sb.WriteString("(declare-fun log10r (Real) Real)\n")
	} else {
		sb.WriteString("(define-sort F64 () (_ FloatingPoint 11 53))\n")
		sb.WriteString("(declare-fun log10f (F64) F64)\n")
	}
	return sb.String()
}

// Take returns and clears the pending definition text.
func (r *Renderer) Take() string {
	s := r.buf.String()
	r.buf.Reset()
	return s
}

func (r *Renderer) sortName(s Sort) string {
	switch s.Kind {
	case KBool:
		return "Bool"
	case KFloat:
		if r.mode == ModeBV {
			return "F64"
		}
		return "Real"
	}
	if r.mode == ModeBV {
		return fmt.Sprintf("(_ BitVec %d)", s.Width)
	}
	return "Int"
}

func floatBits(f float64) uint64 { return math.Float64bits(f) }

func bvLit(u uint64, w int) string {
	if w%4 == 0 {
		return fmt.Sprintf("#x%0*x", w/4, u&mask(w))
	}
	return fmt.Sprintf("#b%0*b", w, u&mask(w))
}
func intLit(v int64) string {
	if v < 0 {
		if v == math.MinInt64 {
			return "(- 9223372036854775808)"
		}
		return fmt.Sprintf("(- %d)", -v)
	}
	return fmt.Sprintf("%d", v)
}

func realLit(f float64) string {
	if math.IsNaN(f) || math.IsInf(f, 0) {
		panic(unsupported("non-finite float constant in tier R"))
	}
	bf := new(big.Float).SetFloat64(f)
	rat, _ := bf.Rat(nil)
	neg := rat.Sign() < 0
	if neg {
		rat.Neg(rat)
	}
	var s string
	if rat.IsInt() {
		s = rat.Num().String() + ".0"
	} else {
		s = "(/ " + rat.Num().String() + ".0 " + rat.Denom().String() + ".0)"
	}
	if neg {
		return "(- " + s + ")"
	}
	return s
}

func fpLit(f float64) string {
	b := math.Float64bits(f)
	if math.IsNaN(f) {
		return "(_ NaN 11 53)"
	}
	return fmt.Sprintf("(fp #b%01b #b%011b #b%052b)", b>>63, (b>>52)&0x7ff, b&((1<<52)-1))
}

var pow2_53 = "9007199254740992.0"
var tinyLit = func() string {
	x := new(big.Int).Lsh(big.NewInt(1), 1075)
	return "(/ 1.0 " + x.String() + ".0)"
}()
var hugeLit = func() string {
	x := new(big.Int).Lsh(big.NewInt(1), 1000)
	return x.String() + ".0"
}()

func (r *Renderer) def(t *Term, expr string) string {
	name := fmt.Sprintf("t%d", t.ID)
	fmt.Fprintf(&r.buf, "(define-fun %s () %s %s)\n", name, r.sortName(t.Sort), expr)
	return name
}

func smtName(n string) string {
	ok := true
	for _, c := range n {
		if !(c >= 'a' && c <= 'z' || c >= 'A' && c <= 'Z' || c >= '0' && c <= '9' || c == '_' || c == '.' || c == '!') {
			ok = false
		}
	}
	if ok {
		return n
	}
	return "|" + strings.ReplaceAll(n, "|", "_") + "|"
}

func (r *Renderer) rangeCond(name string, s Sort) string {
	var lo, hi string
	if s.Signed {
		lo = intLit(-(int64(1) << uint(s.Width-1)))
		if s.Width == 64 {
			hi = "9223372036854775807"
		} else {
			hi = intLit((int64(1) << uint(s.Width-1)) - 1)
		}
	} else {
		lo = "0"
		if s.Width == 64 {
			hi = "18446744073709551615"
		} else {
			hi = intLit((int64(1) << uint(s.Width)) - 1)
		}
	}
	return fmt.Sprintf("(and (<= %s %s) (<= %s %s))", lo, name, name, hi)
}

// Ref returns the SMT name of a term, emitting definitions as necessary.
func (r *Renderer) Ref(t *Term) string {
	if n, ok := r.emitted[t.ID]; ok {
		return n
	}
	var n string
	if r.mode == ModeBV {
		n = r.refBV(t)
	} else {
		n = r.refReal(t)
	}
	r.emitted[t.ID] = n
	r.emitLog = append(r.emitLog, t.ID)
	return n
}

func (r *Renderer) args(t *Term) []string {
	out := make([]string, len(t.Args))
	for i, a := range t.Args {
		out[i] = r.Ref(a)
	}
	return out
}

func (r *Renderer) refBool(t *Term, a []string) (string, bool) {
	if t.Sort.Kind != KBool && t.Op != "ite" {
		// "and" / "or" are also the names of the bitwise integer operators
		return "", false
	}
	switch t.Op {
	case "not":
		return r.def(t, "(not "+a[0]+")"), true
	case "and":
		return r.def(t, "(and "+strings.Join(a, " ")+")"), true
	case "or":
		return r.def(t, "(or "+strings.Join(a, " ")+")"), true
	case "beq":
		return r.def(t, "(= "+a[0]+" "+a[1]+")"), true
	case "ite":
		return r.def(t, "(ite "+a[0]+" "+a[1]+" "+a[2]+")"), true
	}
	return "", false
}

func (r *Renderer) refBV(t *Term) string {
	switch t.Op {
	case "const":
		switch t.Sort.Kind {
		case KBool:
			if t.U == 1 {
				return "true"
			}
			return "false"
		case KFloat:
			return fpLit(t.F)
		}
		return bvLit(t.U, t.Sort.Width)
	case "var":
		n := smtName(t.Name)
		fmt.Fprintf(&r.buf, "(declare-const %s %s)\n", n, r.sortName(t.Sort))
		return n
	}
	a := r.args(t)
	if s, ok := r.refBool(t, a); ok {
		return s
	}
	sgn := len(t.Args) > 0 && t.Args[0].Sort.Signed
	bin := func(op string) string { return r.def(t, "("+op+" "+a[0]+" "+a[1]+")") }
	switch t.Op {
	case "add":
		return bin("bvadd")
	case "sub":
		return bin("bvsub")
	case "mul":
		return bin("bvmul")
	case "div":
		if sgn {
			return bin("bvsdiv")
		}
		return bin("bvudiv")
	case "rem":
		if sgn {
			return bin("bvsrem")
		}
		return bin("bvurem")
	case "and":
		return bin("bvand")
	case "or":
		return bin("bvor")
	case "xor":
		return bin("bvxor")
	case "andnot":
		return r.def(t, "(bvand "+a[0]+" (bvnot "+a[1]+"))")
	case "shl", "shr":
		wa, wb := t.Args[0].Sort.Width, t.Args[1].Sort.Width
		b := a[1]
		if wb < wa {
			b = fmt.Sprintf("((_ zero_extend %d) %s)", wa-wb, b)
		} else if wb > wa {
			b = fmt.Sprintf("((_ extract %d 0) %s)", wa-1, b)
		}
		op := "bvshl"
		if t.Op == "shr" {
			op = "bvlshr"
			if sgn {
				op = "bvashr"
			}
		}
		return r.def(t, "("+op+" "+a[0]+" "+b+")")
	case "neg":
		return r.def(t, "(bvneg "+a[0]+")")
	case "compl":
		return r.def(t, "(bvnot "+a[0]+")")
	case "ieq":
		return bin("=")
	case "ilt":
		if sgn {
			return bin("bvslt")
		}
		return bin("bvult")
	case "ile":
		if sgn {
			return bin("bvsle")
		}
		return bin("bvule")
	case "conv":
		from, to := t.Args[0].Sort, t.Sort
		switch {
		case to.Width == from.Width:
			return a[0]
		case to.Width < from.Width:
			return r.def(t, fmt.Sprintf("((_ extract %d 0) %s)", to.Width-1, a[0]))
		case from.Signed:
			return r.def(t, fmt.Sprintf("((_ sign_extend %d) %s)", to.Width-from.Width, a[0]))
		default:
			return r.def(t, fmt.Sprintf("((_ zero_extend %d) %s)", to.Width-from.Width, a[0]))
		}
	// floats
	case "fadd":
		r.FpOps++
		return bin("fp.add RNE")
	case "fsub":
		r.FpOps++
		return bin("fp.sub RNE")
	case "fmul":
		r.FpOps++
		return bin("fp.mul RNE")
	case "fdiv":
		r.FpOps++
		return bin("fp.div RNE")
	case "fneg":
		return r.def(t, "(fp.neg "+a[0]+")")
	case "fabs":
		return r.def(t, "(fp.abs "+a[0]+")")
	case "fceil":
		return r.def(t, "(fp.roundToIntegral RTP "+a[0]+")")
	case "ffloor":
		return r.def(t, "(fp.roundToIntegral RTN "+a[0]+")")
	case "ftrunc":
		return r.def(t, "(fp.roundToIntegral RTZ "+a[0]+")")
	case "fround":
		return r.def(t, "(fp.roundToIntegral RNA "+a[0]+")")
	case "fsqrt":
		r.FpOps++
		return r.def(t, "(fp.sqrt RNE "+a[0]+")")
	case "flog10":
		return r.def(t, "(log10f "+a[0]+")")
	case "fmax":
		// Go math.Max: +Inf wins, then NaN, then signed zeros, then larger
		x, y := a[0], a[1]
		pinf := "(_ +oo 11 53)"
		return r.def(t, fmt.Sprintf("(ite (or (= %s %s) (= %s %s)) %s (ite (or (fp.isNaN %s) (fp.isNaN %s)) (_ NaN 11 53) (ite (and (fp.isZero %s) (fp.isZero %s)) (ite (fp.isNegative %s) %s %s) (ite (fp.gt %s %s) %s %s))))",
			x, pinf, y, pinf, pinf, x, y, x, y, x, y, x, x, y, x, y))
	case "fmin":
		x, y := a[0], a[1]
		ninf := "(_ -oo 11 53)"
		return r.def(t, fmt.Sprintf("(ite (or (= %s %s) (= %s %s)) %s (ite (or (fp.isNaN %s) (fp.isNaN %s)) (_ NaN 11 53) (ite (and (fp.isZero %s) (fp.isZero %s)) (ite (fp.isNegative %s) %s %s) (ite (fp.lt %s %s) %s %s))))",
			x, ninf, y, ninf, ninf, x, y, x, y, x, x, y, x, y, x, y))
	case "feq":
		return bin("fp.eq")
	case "flt":
		return bin("fp.lt")
	case "fle":
		return bin("fp.leq")
	case "fisnan":
		return r.def(t, "(fp.isNaN "+a[0]+")")
	case "fisinf":
		return r.def(t, "(fp.isInfinite "+a[0]+")")
	case "i2f":
		if t.Args[0].Sort.Signed {
			return r.def(t, "((_ to_fp 11 53) RNE "+a[0]+")")
		}
		return r.def(t, "((_ to_fp_unsigned 11 53) RNE "+a[0]+")")
	case "f2i":
		if t.Sort.Signed {
			return r.def(t, fmt.Sprintf("((_ fp.to_sbv %d) RTZ %s)", t.Sort.Width, a[0]))
		}
		return r.def(t, fmt.Sprintf("((_ fp.to_ubv %d) RTZ %s)", t.Sort.Width, a[0]))
	}
	panic(unsupported("render(bv) op " + t.Op))
}

func isPow2Const(t *Term) bool {
	if !t.IsConst() || t.Sort.Kind != KFloat || t.F == 0 || math.IsInf(t.F, 0) || math.IsNaN(t.F) {
		return false
	}
	fr, _ := math.Frexp(math.Abs(t.F))
	return fr == 0.5
}

// floatIntValued: syntactic check that the float term always denotes an integer.
func floatIntValued(t *Term) bool {
	switch t.Op {
	case "const":
		return t.Sort.Kind == KFloat && t.F == math.Trunc(t.F)
	case "i2f", "fceil", "ffloor", "ftrunc", "fround":
		return true
	case "fadd", "fsub", "fmul", "fmax", "fmin":
		return floatIntValued(t.Args[0]) && floatIntValued(t.Args[1])
	case "fneg", "fabs":
		return floatIntValued(t.Args[0])
	case "ite":
		return floatIntValued(t.Args[1]) && floatIntValued(t.Args[2])
	}
	return false
}

func (r *Renderer) addAnchor(lit string) {
	if r.anchorSet[lit] {
		return
	}
	r.anchorSet[lit] = true
	r.addMember(famMember{e: lit, v: lit, rounded: false, linear: true})
}

// axiom records a tier-R axiom at a refinement level (1 = linear facts, 2 = nonlinear
// error bounds, 3 = pairwise monotonicity between rounded terms).  Axioms are theorems of
// IEEE-754 round-to-nearest arithmetic, so asserting any subset is sound for `unsat`.
func (r *Renderer) axiom(level int, format string, a ...interface{}) {
	r.Axioms = append(r.Axioms, Axiom{level, fmt.Sprintf("(assert "+format+")\n", a...)})
}

func (r *Renderer) gridAxioms() string {
	var sb strings.Builder
	fin := func(f float64) bool { return !math.IsNaN(f) && !math.IsInf(f, 0) }
	ge := func(cond, res string, v float64) {
		if fin(v) {
			fmt.Fprintf(&sb, "(assert (=> %s (>= %s %s)))\n", cond, res, realLit(v))
		}
	}
	le := func(cond, res string, v float64) {
		if fin(v) {
			fmt.Fprintf(&sb, "(assert (=> %s (<= %s %s)))\n", cond, res, realLit(v))
		}
	}
	for _, g := range r.grid {
		switch {
		case g.cb != nil || g.ca != nil:
			// one constant operand
			var c float64
			x := g.a
			constFirst := false
			if g.ca != nil {
				c, x, constFirst = *g.ca, g.b, true
			} else {
				c = *g.cb
			}
			for _, p := range r.anchors {
				var v float64
				incr := true // result increasing in x?
				switch g.op {
				case "fadd":
					v = p + c
				case "fsub":
					if constFirst {
						v, incr = c-p, false
					} else {
						v = p - c
					}
				case "fmul":
					v = p * c
					incr = c >= 0
				case "fdiv":
					if constFirst {
						continue
					}
					v = p / c
					incr = c > 0
					if c == 0 {
						continue
					}
				}
				lp := realLit(p)
				if incr {
					ge("(>= "+x+" "+lp+")", g.res, v)
					le("(<= "+x+" "+lp+")", g.res, v)
				} else {
					le("(>= "+x+" "+lp+")", g.res, v)
					ge("(<= "+x+" "+lp+")", g.res, v)
				}
			}
		default:
			for _, p := range r.anchors {
				for _, q := range r.anchors {
					lp, lq := realLit(p), realLit(q)
					switch g.op {
					case "fadd":
						ge("(and (>= "+g.a+" "+lp+") (>= "+g.b+" "+lq+"))", g.res, p+q)
						le("(and (<= "+g.a+" "+lp+") (<= "+g.b+" "+lq+"))", g.res, p+q)
					case "fsub":
						ge("(and (>= "+g.a+" "+lp+") (<= "+g.b+" "+lq+"))", g.res, p-q)
						le("(and (<= "+g.a+" "+lp+") (>= "+g.b+" "+lq+"))", g.res, p-q)
					case "fmul":
						if p >= 0 && q >= 0 {
							ge("(and (>= "+g.a+" "+lp+") (>= "+g.b+" "+lq+"))", g.res, p*q)
							le("(and (>= "+g.a+" 0.0) (>= "+g.b+" 0.0) (<= "+g.a+" "+lp+") (<= "+g.b+" "+lq+"))", g.res, p*q)
						}
					case "fdiv":
						if p >= 0 && q > 0 {
							ge("(and (>= "+g.a+" "+lp+") (> "+g.b+" 0.0) (<= "+g.b+" "+lq+"))", g.res, p/q)
							le("(and (>= "+g.a+" 0.0) (<= "+g.a+" "+lp+") (>= "+g.b+" "+lq+"))", g.res, p/q)
						}
					}
				}
			}
		}
	}
	return sb.String()
}

// AxiomText returns the axioms of level lo < l <= hi.
func (r *Renderer) AxiomText(lo, hi int) string {
	var sb strings.Builder
	if lo < 2 && hi >= 2 && len(r.anchors) <= 24 {
		sb.WriteString(r.gridAxioms())
	}
	for _, a := range r.Axioms {
		if a.Level > lo && a.Level <= hi {
			sb.WriteString(a.Text)
		}
	}
	return sb.String()
}

func (r *Renderer) addMember(m famMember) {
	if !r.NoMono {
		for _, o := range r.family {
			if !o.rounded && !m.rounded {
				continue
			}
			lvl := 3
			if m.linear && o.linear && (!m.rounded || !o.rounded) {
				lvl = 1 // monotone w.r.t. a representable anchor, linear exact terms
			}
			r.axiom(lvl, "(=> (<= %s %s) (<= %s %s))", m.e, o.e, m.v, o.v)
			r.axiom(lvl, "(=> (<= %s %s) (<= %s %s))", o.e, m.e, o.v, m.v)
			// a rounding result is itself representable: rnd(v)=v
			if m.rounded && o.rounded {
				r.axiom(3, "(=> (<= %s %s) (<= %s %s))", m.e, o.v, m.v, o.v)
				r.axiom(3, "(=> (<= %s %s) (<= %s %s))", o.v, m.e, o.v, m.v)
				r.axiom(3, "(=> (<= %s %s) (<= %s %s))", o.e, m.v, o.v, m.v)
				r.axiom(3, "(=> (<= %s %s) (<= %s %s))", m.v, o.e, m.v, o.v)
			}
		}
	}
	r.family = append(r.family, m)
}

// rounded declares the rounded result of an exact real expression.
func (r *Renderer) rounded(t *Term, exact string, intValued bool, linear bool) string {
	r.FpOps++
	name := fmt.Sprintf("r%d", t.ID)
	e := fmt.Sprintf("e%d", t.ID)
	fmt.Fprintf(&r.buf, "(declare-const %s Real)\n(define-fun %s () Real %s)\n", name, e, exact)
	lvl := 2
	if linear {
		lvl = 1
	}
	r.axiom(lvl, "(<= (absr (- %s %s)) (+ (* (/ 1.0 %s) (absr %s)) %s))", name, e, pow2_53, e, tinyLit)
	if intValued {
		r.axiom(lvl, "(=> (<= (absr %s) %s) (= %s %s))", e, pow2_53, name, e)
	}
	r.addMember(famMember{e: e, v: name, rounded: true, linear: linear})
	return name
}

// opMonotone: pairwise monotonicity between two rounded operations of the same kind
// (correct rounding is monotone, so ordered operands give ordered results).  All implications
// are linear in the solver variables: this is what relational (two-run) properties need.
func (r *Renderer) opMonotone(op, res, a, b string) {
	for _, o := range r.grid {
		if o.op != op {
			continue
		}
		switch op {
		case "fadd":
			r.axiom(1, "(=> (and (<= %s %s) (<= %s %s)) (<= %s %s))", a, o.a, b, o.b, res, o.res)
			r.axiom(1, "(=> (and (<= %s %s) (<= %s %s)) (<= %s %s))", o.a, a, o.b, b, o.res, res)
			r.axiom(1, "(=> (and (<= %s %s) (<= %s %s)) (<= %s %s))", a, o.b, b, o.a, res, o.res)
			r.axiom(1, "(=> (and (<= %s %s) (<= %s %s)) (<= %s %s))", o.b, a, o.a, b, o.res, res)
		case "fsub":
			r.axiom(1, "(=> (and (<= %s %s) (>= %s %s)) (<= %s %s))", a, o.a, b, o.b, res, o.res)
			r.axiom(1, "(=> (and (<= %s %s) (>= %s %s)) (<= %s %s))", o.a, a, o.b, b, o.res, res)
		case "fmul":
			for _, p := range [][4]string{{a, b, o.a, o.b}, {a, b, o.b, o.a}} {
				x1, y1, x2, y2 := p[0], p[1], p[2], p[3]
				r.axiom(1, "(=> (and (<= 0.0 %s) (<= %s %s) (<= 0.0 %s) (<= %s %s)) (<= %s %s))", x1, x1, x2, y1, y1, y2, res, o.res)
				r.axiom(1, "(=> (and (<= 0.0 %s) (<= %s %s) (<= 0.0 %s) (<= %s %s)) (<= %s %s))", x2, x2, x1, y2, y2, y1, o.res, res)
			}
		case "fdiv":
			r.axiom(1, "(=> (and (<= 0.0 %s) (<= %s %s) (< 0.0 %s) (<= %s %s)) (<= %s %s))", a, a, o.a, o.b, o.b, b, res, o.res)
			r.axiom(1, "(=> (and (<= 0.0 %s) (<= %s %s) (< 0.0 %s) (<= %s %s)) (<= %s %s))", o.a, o.a, a, b, b, o.b, o.res, res)
		}
	}
}

func (r *Renderer) addGrid(t *Term, res string, a []string) {
	r.opMonotone(t.Op, res, a[0], a[1])
	g := gridNode{op: t.Op, res: res, a: a[0], b: a[1]}
	if t.Args[0].IsConst() {
		f := t.Args[0].F
		g.ca = &f
	}
	if t.Args[1].IsConst() {
		f := t.Args[1].F
		g.cb = &f
	}
	r.grid = append(r.grid, g)
}

// productLemmas: linear consequences of monotone correct rounding for r = rnd(a*b)
// (a, b representable), and for r = rnd(a/b).
func (r *Renderer) productLemmas(res, a, b string) {
	r.axiom(1, "(=> (or (and (>= %s 0.0) (>= %s 0.0)) (and (<= %s 0.0) (<= %s 0.0))) (>= %s 0.0))", a, b, a, b, res)
	r.axiom(1, "(=> (or (and (>= %s 0.0) (<= %s 0.0)) (and (<= %s 0.0) (>= %s 0.0))) (<= %s 0.0))", a, b, a, b, res)
	r.axiom(1, "(=> (or (= %s 0.0) (= %s 0.0)) (= %s 0.0))", a, b, res)
	for _, p := range [][2]string{{a, b}, {b, a}} {
		x, y := p[0], p[1]
		r.axiom(1, "(=> (and (>= %s 0.0) (>= %s 0.0) (<= %s 1.0)) (<= %s %s))", x, y, y, res, x)
		r.axiom(1, "(=> (and (>= %s 0.0) (>= %s 1.0)) (>= %s %s))", x, y, res, x)
		r.axiom(1, "(=> (= %s 1.0) (= %s %s))", y, res, x)
	}
}

func (r *Renderer) quotientLemmas(res, a, b string) {
	r.axiom(1, "(=> (or (and (>= %s 0.0) (> %s 0.0)) (and (<= %s 0.0) (< %s 0.0))) (>= %s 0.0))", a, b, a, b, res)
	r.axiom(1, "(=> (or (and (>= %s 0.0) (< %s 0.0)) (and (<= %s 0.0) (> %s 0.0))) (<= %s 0.0))", a, b, a, b, res)
	r.axiom(1, "(=> (and (= %s 0.0) (not (= %s 0.0))) (= %s 0.0))", a, b, res)
	r.axiom(1, "(=> (and (>= %s 0.0) (>= %s 1.0)) (<= %s %s))", a, b, res, a)
	r.axiom(1, "(=> (and (>= %s 0.0) (> %s 0.0) (<= %s 1.0)) (>= %s %s))", a, b, b, res, a)
	r.axiom(1, "(=> (and (>= %s 0.0) (> %s 0.0) (<= %s %s)) (<= %s 1.0))", a, b, a, b, res)
	r.axiom(1, "(=> (and (> %s 0.0) (>= %s %s)) (>= %s 1.0))", b, a, b, res)
	r.axiom(1, "(=> (and (= %s %s) (not (= %s 0.0))) (= %s 1.0))", a, b, b, res)
	r.axiom(1, "(=> (= %s 1.0) (= %s %s))", b, res, a)
}

func (r *Renderer) refReal(t *Term) string {
	switch t.Op {
	case "const":
		switch t.Sort.Kind {
		case KBool:
			if t.U == 1 {
				return "true"
			}
			return "false"
		case KFloat:
			lit := realLit(t.F)
			if !r.anchorSet[lit] {
				r.anchors = append(r.anchors, t.F)
			}
			r.addAnchor(lit)
			return lit
		}
		if t.Sort.Signed {
			return intLit(t.SignedVal())
		}
		return new(big.Int).SetUint64(t.U).String()
	case "var":
		n := smtName(t.Name)
		fmt.Fprintf(&r.buf, "(declare-const %s %s)\n", n, r.sortName(t.Sort))
		if t.Sort.Kind == KInt {
			fmt.Fprintf(&r.buf, "(assert %s)\n", r.rangeCond(n, t.Sort))
		}
		if t.Sort.Kind == KFloat {
			// an input double is representable: rnd(x) = x
			r.addMember(famMember{e: n, v: n, rounded: false, linear: true})
		}
		return n
	}
	a := r.args(t)
	if s, ok := r.refBool(t, a); ok {
		return s
	}
	sym := HasVars(t)
	intRes := func(expr string) string {
		n := r.def(t, expr)
		if sym {
			r.RangeConds = append(r.RangeConds, r.rangeCond(n, t.Sort))
		}
		return n
	}
	bin := func(op string) string { return r.def(t, "("+op+" "+a[0]+" "+a[1]+")") }
	switch t.Op {
	case "add":
		return intRes("(+ " + a[0] + " " + a[1] + ")")
	case "sub":
		return intRes("(- " + a[0] + " " + a[1] + ")")
	case "mul":
		return intRes("(* " + a[0] + " " + a[1] + ")")
	case "neg":
		return intRes("(- " + a[0] + ")")
	case "div", "rem":
		x, y := a[0], a[1]
		q := fmt.Sprintf("(let ((q (div (abs %s) (abs %s)))) (ite (= (>= %s 0) (>= %s 0)) q (- q)))", x, y, x, y)
		if t.Op == "div" {
			return intRes(q)
		}
		return intRes(fmt.Sprintf("(- %s (* %s %s))", x, y, q))
	case "shl", "shr":
		if !t.Args[1].IsConst() || t.Args[1].U > 62 {
			panic(unsupported("symbolic shift in tier R"))
		}
		p := intLit(int64(1) << t.Args[1].U)
		if t.Op == "shl" {
			return intRes("(* " + a[0] + " " + p + ")")
		}
		return intRes("(div " + a[0] + " " + p + ")")
	case "ieq":
		return bin("=")
	case "ilt":
		return bin("<")
	case "ile":
		return bin("<=")
	case "conv":
		n := r.def(t, a[0])
		if sym {
			r.RangeConds = append(r.RangeConds, r.rangeCond(n, t.Sort))
		}
		return n
	// floats as rounded reals
	case "fadd", "fsub":
		op := "+"
		if t.Op == "fsub" {
			op = "-"
		}
		n := r.rounded(t, "("+op+" "+a[0]+" "+a[1]+")", floatIntValued(t), true)
		r.addGrid(t, n, a)
		return n
	case "fmul":
		if isPow2Const(t.Args[0]) || isPow2Const(t.Args[1]) {
			return r.def(t, "(* "+a[0]+" "+a[1]+")") // exact scaling (underflow excluded by the magnitude side condition)
		}
		lin := t.Args[0].IsConst() || t.Args[1].IsConst()
		n := r.rounded(t, "(* "+a[0]+" "+a[1]+")", floatIntValued(t), lin)
		if !lin {
			r.productLemmas(n, a[0], a[1])
		}
		r.addGrid(t, n, a)
		return n
	case "fdiv":
		if isPow2Const(t.Args[1]) {
			return r.def(t, "(/ "+a[0]+" "+a[1]+")")
		}
		lin := t.Args[1].IsConst()
		n := r.rounded(t, "(/ "+a[0]+" "+a[1]+")", false, lin)
		if !lin {
			r.quotientLemmas(n, a[0], a[1])
		}
		r.addGrid(t, n, a)
		return n
	case "fneg":
		return r.def(t, "(- "+a[0]+")")
	case "fabs":
		return r.def(t, "(absr "+a[0]+")")
	case "fceil":
		return r.def(t, "(to_real (ceili "+a[0]+"))")
	case "ffloor":
		return r.def(t, "(to_real (to_int "+a[0]+"))")
	case "ftrunc":
		return r.def(t, "(to_real (trunci "+a[0]+"))")
	case "fround":
		// round half away from zero (math.Round)
		return r.def(t, "(to_real (ite (>= "+a[0]+" 0.0) (to_int (+ "+a[0]+" 0.5)) (- (to_int (+ (- "+a[0]+") 0.5)))))")
	case "fsqrt":
		r.FpOps++
		name := fmt.Sprintf("r%d", t.ID)
		fmt.Fprintf(&r.buf, "(declare-const %s Real)\n", name)
		r.axiom(1, "(>= %s 0.0)", name)
		r.axiom(1, "(=> (>= %s 1.0) (and (>= %s 1.0) (<= %s %s)))", a[0], name, name, a[0])
		r.axiom(1, "(=> (and (>= %s 0.0) (<= %s 1.0)) (and (<= %s 1.0) (>= %s %s)))", a[0], a[0], name, name, a[0])
		r.axiom(2, "(and (<= (* %s %s) (* %s (+ 1.0 (/ 4.0 %s)))) (>= (* %s %s) (* %s (- 1.0 (/ 4.0 %s)))))",
			name, name, a[0], pow2_53, name, name, a[0], pow2_53)
		return name
	case "flog10":
		name := r.def(t, "(log10r "+a[0]+")")
		p := 1.0
		for k := 0; k <= 19; k++ {
			r.axiom(1, "(=> (>= %s %s) (>= %s (- %d.0 (/ 1.0 1099511627776.0))))", a[0], realLit(p), name, k)
			r.axiom(1, "(=> (< %s %s) (< %s %d.0))", a[0], realLit(p*10), name, k+1)
			p *= 10
		}
		return name
	case "fmax":
		return r.def(t, "(ite (>= "+a[0]+" "+a[1]+") "+a[0]+" "+a[1]+")")
	case "fmin":
		return r.def(t, "(ite (<= "+a[0]+" "+a[1]+") "+a[0]+" "+a[1]+")")
	case "feq":
		return bin("=")
	case "flt":
		return bin("<")
	case "fle":
		return bin("<=")
	case "fisnan", "fisinf":
		return "false" // excluded by the finiteness side conditions of tier R
	case "i2f":
		if t.Args[0].Sort.Width <= 32 {
			n := r.def(t, "(to_real "+a[0]+")")
			r.addMember(famMember{e: n, v: n, rounded: false, linear: true})
			return n
		}
		n := r.rounded(t, "(to_real "+a[0]+")", true, true)
		for _, o := range r.i2fs {
			r.axiom(1, "(=> (<= %s %s) (<= %s %s))", a[0], o[0], n, o[1])
			r.axiom(1, "(=> (<= %s %s) (<= %s %s))", o[0], a[0], o[1], n)
		}
		r.i2fs = append(r.i2fs, [2]string{a[0], n})
		return n
	case "f2i":
		return intRes("(trunci " + a[0] + ")")
	}
	panic(unsupported("render(real) op " + t.Op))
}

// ---------------------------------------------------------------------------
// solver processes

type SolverKind struct {
	Name string
	Cmd  []string
}

var (
	SolverZ3    = SolverKind{"z3-4.8.12", []string{"z3", "-in"}}
	SolverZ3New = SolverKind{"z3-5.1.0", []string{"z3-new", "-in"}}
	SolverCVC5  = SolverKind{"cvc5-1.0", []string{"cvc5", "--incremental", "--produce-models", "--fp-exp"}}
)

type Solver struct {
	kind      SolverKind
	cmd       *exec.Cmd
	in        io.WriteCloser
	out       *bufio.Reader
	lines     chan string
	Log       io.Writer
	dead      bool
	Queries   int
	Time      time.Duration
	mu        sync.Mutex
	restarts  int
	noRestart bool // portfolio solvers are one-shot: never restarted (their owner closes them concurrently)
	closed    bool
}

// StartSolverTO starts a solver whose per-check time limit (where it must be given on the
// command line: cvc5) is limit.
func StartSolverTO(k SolverKind, limit time.Duration) (*Solver, error) {
	if k.Name == SolverCVC5.Name && limit > 0 {
		k.Cmd = append(append([]string{}, k.Cmd...), fmt.Sprintf("--tlimit-per=%d", int(limit/time.Millisecond)))
	}
	return StartSolver(k)
}

func StartSolver(k SolverKind) (*Solver, error) {
	s := &Solver{kind: k}
	if err := s.start(); err != nil {
		return nil, err
	}
	return s, nil
}

func (s *Solver) start() error {
	s.cmd = exec.Command(s.kind.Cmd[0], s.kind.Cmd[1:]...)
	in, err := s.cmd.StdinPipe()
	if err != nil {
		return err
	}
	out, err := s.cmd.StdoutPipe()
	if err != nil {
		return err
	}
	s.cmd.Stderr = nil
	if err := s.cmd.Start(); err != nil {
		return err
	}
	s.in = in
	s.out = bufio.NewReaderSize(out, 1<<20)
	s.lines = make(chan string, 1024)
	s.dead = false
	go func(rd *bufio.Reader, ch chan string) {
		for {
			l, err := rd.ReadString('\n')
			if l != "" {
				ch <- strings.TrimRight(l, "\r\n")
			}
			if err != nil {
				close(ch)
				return
			}
		}
	}(s.out, s.lines)
	return nil
}

func (s *Solver) Close() {
	s.mu.Lock()
	defer s.mu.Unlock()
	s.closed = true
	if s.cmd != nil && s.cmd.Process != nil {
		s.in.Close()
		s.cmd.Process.Kill()
		// reap asynchronously: a solver that does not die at once (observed: waitid on the pidfd
		// blocking for minutes under load) must not stall the check
		go func(c *exec.Cmd) { c.Wait() }(s.cmd)
	}
	s.dead = true
}

func (s *Solver) Restart() {
	s.restarts++
	s.Close()
	s.mu.Lock()
	defer s.mu.Unlock()
	if err := s.start(); err != nil {
		panic(err)
	}
	s.closed = false
}

func (s *Solver) Send(text string) {
	if s.Log != nil {
		io.WriteString(s.Log, text)
	}
	io.WriteString(s.in, text)
}

// readAnswer reads one s-expression (possibly multi-line) or atom line.
func (s *Solver) readAnswer(timeout time.Duration) (string, bool) {
	var sb strings.Builder
	depth := 0
	started := false
	deadline := time.After(timeout)
	for {
		select {
		case l, ok := <-s.lines:
			if !ok {
				s.dead = true
				return sb.String(), false
			}
			if strings.TrimSpace(l) == "" && !started {
				continue
			}
			started = true
			sb.WriteString(l)
			sb.WriteByte('\n')
			inStr := false
			for _, c := range l {
				switch {
				case c == '"':
					inStr = !inStr
				case inStr:
				case c == '(':
					depth++
				case c == ')':
					depth--
				}
			}
			if depth <= 0 {
				return strings.TrimSpace(sb.String()), true
			}
		case <-deadline:
			return sb.String(), false
		}
	}
}

// CheckSat issues (check-sat) with a timeout; returns "sat","unsat","unknown" or "error:...".
func (s *Solver) CheckSat(timeout time.Duration) string {
	t0 := time.Now()
	defer func() { s.Time += time.Since(t0); s.Queries++ }()
	ms := int(timeout / time.Millisecond)
	if strings.HasPrefix(s.kind.Name, "z3") {
		s.Send(fmt.Sprintf("(set-option :timeout %d)\n", ms))
	}
	s.Send("(check-sat)\n")
	ans, ok := s.readAnswer(timeout + 3*time.Second)
	if !ok {
		// hard timeout or dead: restart (one-shot portfolio solvers are just abandoned)
		if s.noRestart {
			s.dead = true
			return "unknown"
		}
		s.Restart()
		return "unknown"
	}
	if strings.Contains(ans, "(error") {
		return "error:" + ans
	}
	switch ans {
	case "sat", "unsat", "unknown":
		return ans
	case "timeout":
		return "unknown"
	}
	return "error:" + ans
}

// GetValues returns raw value s-expressions for the given smt names.
func (s *Solver) GetValues(names []string) map[string]string {
	res := map[string]string{}
	for _, n := range names {
		s.Send("(get-value (" + n + "))\n")
		ans, ok := s.readAnswer(20 * time.Second)
		if !ok || strings.Contains(ans, "(error") {
			continue
		}
		// ((name value))
		ans = strings.TrimSpace(ans)
		ans = strings.TrimPrefix(ans, "((")
		ans = strings.TrimSuffix(ans, "))")
		i := strings.IndexAny(ans, " \n")
		if strings.HasPrefix(ans, "|") {
			j := strings.Index(ans[1:], "|")
			i = j + 2
		}
		if i > 0 && i < len(ans) {
			res[n] = strings.TrimSpace(ans[i:])
		}
	}
	return res
}

// ---------------------------------------------------------------------------
// model value parsing

type sexp struct {
	atom string
	list []*sexp
}

func parseSexp(s string) *sexp {
	toks := []string{}
	cur := strings.Builder{}
	flush := func() {
		if cur.Len() > 0 {
			toks = append(toks, cur.String())
			cur.Reset()
		}
	}
	for _, c := range s {
		switch c {
		case '(', ')':
			flush()
			toks = append(toks, string(c))
		case ' ', '\n', '\t', '\r':
			flush()
		default:
			cur.WriteRune(c)
		}
	}
	flush()
	pos := 0
	var rec func() *sexp
	rec = func() *sexp {
		if pos >= len(toks) {
			return &sexp{}
		}
		t := toks[pos]
		pos++
		if t == "(" {
			n := &sexp{list: []*sexp{}}
			for pos < len(toks) && toks[pos] != ")" {
				n.list = append(n.list, rec())
			}
			pos++
			return n
		}
		return &sexp{atom: t}
	}
	return rec()
}

func evalRat(e *sexp) (*big.Rat, bool) {
	if e.list == nil {
		a := strings.TrimSuffix(e.atom, "?")
		r := new(big.Rat)
		if _, ok := r.SetString(a); ok {
			return r, true
		}
		return nil, false
	}
	if len(e.list) == 0 {
		return nil, false
	}
	op := e.list[0].atom
	var args []*big.Rat
	for _, x := range e.list[1:] {
		v, ok := evalRat(x)
		if !ok {
			return nil, false
		}
		args = append(args, v)
	}
	switch op {
	case "-":
		if len(args) == 1 {
			return new(big.Rat).Neg(args[0]), true
		}
		if len(args) == 2 {
			return new(big.Rat).Sub(args[0], args[1]), true
		}
	case "+":
		if len(args) == 2 {
			return new(big.Rat).Add(args[0], args[1]), true
		}
	case "/":
		if len(args) == 2 && args[1].Sign() != 0 {
			return new(big.Rat).Quo(args[0], args[1]), true
		}
	case "*":
		if len(args) == 2 {
			return new(big.Rat).Mul(args[0], args[1]), true
		}
	case "to_real":
		if len(args) == 1 {
			return args[0], true
		}
	}
	return nil, false
}

// ModelVal is a parsed model value for a nondet input.
type ModelVal struct {
	Sort Sort
	U    uint64
	F    float64
	Raw  string
}

func parseModelValue(raw string, s Sort, mode Mode) (ModelVal, bool) {
	mv := ModelVal{Sort: s, Raw: raw}
	e := parseSexp(raw)
	switch s.Kind {
	case KBool:
		if e.atom == "true" {
			mv.U = 1
			return mv, true
		}
		if e.atom == "false" {
			return mv, true
		}
		return mv, false
	case KInt:
		if mode == ModeBV {
			a := e.atom
			if strings.HasPrefix(a, "#x") {
				u, err := strconv.ParseUint(a[2:], 16, 64)
				mv.U = u
				return mv, err == nil
			}
			if strings.HasPrefix(a, "#b") {
				u, err := strconv.ParseUint(a[2:], 2, 64)
				mv.U = u
				return mv, err == nil
			}
			if len(e.list) == 3 && e.list[0].atom == "_" && strings.HasPrefix(e.list[1].atom, "bv") {
				u, err := strconv.ParseUint(e.list[1].atom[2:], 10, 64)
				mv.U = u
				return mv, err == nil
			}
			return mv, false
		}
		r, ok := evalRat(e)
		if !ok || !r.IsInt() {
			return mv, false
		}
		n := r.Num()
		if n.IsInt64() {
			mv.U = uint64(n.Int64()) & mask(s.Width)
			return mv, true
		}
		if n.IsUint64() {
			mv.U = n.Uint64() & mask(s.Width)
			return mv, true
		}
		return mv, false
	case KFloat:
		if mode == ModeBV {
			if len(e.list) == 4 && e.list[0].atom == "fp" {
				sb, e1 := strconv.ParseUint(strings.TrimPrefix(e.list[1].atom, "#b"), 2, 64)
				var ex, mn uint64
				var e2, e3 error
				if strings.HasPrefix(e.list[2].atom, "#x") {
					ex, e2 = strconv.ParseUint(e.list[2].atom[2:], 16, 64)
				} else {
					ex, e2 = strconv.ParseUint(strings.TrimPrefix(e.list[2].atom, "#b"), 2, 64)
				}
				if strings.HasPrefix(e.list[3].atom, "#x") {
					mn, e3 = strconv.ParseUint(e.list[3].atom[2:], 16, 64)
				} else {
					mn, e3 = strconv.ParseUint(strings.TrimPrefix(e.list[3].atom, "#b"), 2, 64)
				}
				if e1 != nil || e2 != nil || e3 != nil {
					return mv, false
				}
				mv.F = math.Float64frombits(sb<<63 | ex<<52 | mn)
				return mv, true
			}
			if len(e.list) >= 2 && e.list[0].atom == "_" {
				switch e.list[1].atom {
				case "NaN":
					mv.F = math.NaN()
					return mv, true
				case "+oo":
					mv.F = math.Inf(1)
					return mv, true
				case "-oo":
					mv.F = math.Inf(-1)
					return mv, true
				case "+zero":
					mv.F = 0
					return mv, true
				case "-zero":
					mv.F = math.Copysign(0, -1)
					return mv, true
				}
			}
			return mv, false
		}
		r, ok := evalRat(e)
		if !ok {
			return mv, false
		}
		f, _ := r.Float64()
		mv.F = f
		return mv, true
	}
	return mv, false
}
