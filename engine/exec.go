package main

// Symbolic interpreter over go/ssa.

import (
	"fmt"
	"go/constant"
	"go/token"
	"go/types"
	"math"
	"strings"

	"golang.org/x/tools/go/ssa"
)

var repoRoot string

type unsupportedErr struct{ msg string }

func unsupported(msg string) unsupportedErr { return unsupportedErr{msg} }

type pathEnd struct{ reason string }

type Frame struct {
	fn     *ssa.Function
	locals map[ssa.Value]Value
	defers []func()
	bind   []Value
	result Value
	pos    token.Pos
}

type Exec struct {
	prog         *ssa.Program
	ts           *TS
	sess         *Session
	ctl          *PathCtl
	globals      map[*ssa.Global]*Object
	nextObj      int
	steps        int
	depth        int
	frames       []*Frame
	h            *Harness
	locks        map[string]*lockState
	conc         *ConcState
	nondets      []Nondet
	clock        *Term // last time.Now() value (non-decreasing)
	nowCnt       int
	funcs        map[string]bool
	stubs        map[string]bool
	ghost        map[string]Value
	forkCnt      map[ssa.Instruction]int
	initDone     map[*ssa.Package]bool
	timers       []*timerState
	classes      []classPred
	explicit     []int
	choiceSeq    []int
	explicitIn   []int
	concreteMode bool
	deferredGo   []func()
	allObjs      []*Object
	allMaps      []*MapV
	allChans     []*ChanV
	readings     []*Term
	inInit       int
	ld           *Loaded
}

type Nondet struct {
	Name string
	Sort Sort
	T    *Term
}

type lockState struct {
	w int // writer held
	r int // readers
}

func (ex *Exec) curPos() string {
	for i := len(ex.frames) - 1; i >= 0; i-- {
		f := ex.frames[i]
		if f.pos.IsValid() {
			p := ex.prog.Fset.Position(f.pos)
			fn := p.Filename
			if repoRoot != "" && strings.HasPrefix(fn, repoRoot+"/") {
				fn = fn[len(repoRoot)+1:]
			} else if j := strings.Index(fn, "/repo/"); j >= 0 {
				fn = fn[j+6:]
			}
			return fmt.Sprintf("%s:%d", fn, p.Line)
		}
	}
	return "?"
}

func (ex *Exec) stack() string {
	var parts []string
	for i := len(ex.frames) - 1; i >= 0 && len(parts) < 6; i-- {
		parts = append(parts, ex.frames[i].fn.String())
	}
	return strings.Join(parts, " <- ")
}

// rtFail records a definite run-time failure (reachable under the current, satisfiable pc).
func (ex *Exec) rtFail(kind, msg string) pathEnd {
	ex.sess.Obligation("rt:"+kind+"@"+ex.curPos(), "runtime", ex.ts.Bool(false), ex.curPos(), msg)
	return pathEnd{"runtime failure: " + msg}
}

// require adds a run-time check obligation with a symbolic condition.
func (ex *Exec) require(kind string, cond *Term, msg string) {
	if cond.IsTrue() {
		return
	}
	if cond.IsFalse() {
		panic(ex.rtFail(kind, msg))
	}
	if !ex.sess.Obligation("rt:"+kind+"@"+ex.curPos(), "runtime", cond, ex.curPos(), msg) {
		panic(pathEnd{"runtime failure on every input of this path: " + msg})
	}
}

// branch decides a symbolic condition, forking the path.
func (ex *Exec) branch(cond *Term, site ssa.Instruction) bool {
	if cond.IsTrue() {
		return true
	}
	if cond.IsFalse() {
		return false
	}
	if site != nil {
		ex.forkCnt[site]++
		if ex.forkCnt[site] > ex.h.Unwind {
			if ex.h.Opts["unwindcut"] == "1" {
				// stated bound: the path is cut here (stateless retry loop), not reported as a failure
				ex.sess.res.UnwindCuts++
				panic(pathEnd{"unwinding bound reached (cut)"})
			}
			ex.sess.UnwindFailure(ex.curPos())
			panic(pathEnd{"unwinding bound reached"})
		}
	}
	c := ex.ctl.Choose(2, func(i int) bool {
		if i == 0 {
			return ex.sess.Feasible(cond)
		}
		return ex.sess.Feasible(ex.ts.Not(cond))
	})
	if c < 0 {
		panic(pathEnd{"no feasible branch"})
	}
	if c == 0 {
		ex.sess.AssertPC(cond)
		return true
	}
	ex.sess.AssertPC(ex.ts.Not(cond))
	return false
}

// choice forks n ways without conditions (enumerated bound).
func (ex *Exec) choice(n int) int {
	c := ex.explicitChoose(n, func(int) bool { return true })
	ex.choiceSeq = append(ex.choiceSeq, c)
	return c
}

// explicitChoose is Choose for enumerated (non-branch) decisions; recorded for replay.
func (ex *Exec) explicitChoose(n int, feasible func(int) bool) int {
	var c int
	if ex.concreteMode {
		if len(ex.explicitIn) == 0 {
			ex.sess.concErr = "explicit choice sequence exhausted"
			panic(pathEnd{"concrete replay: choice sequence exhausted"})
		}
		c = ex.explicitIn[0]
		ex.explicitIn = ex.explicitIn[1:]
		if c >= 0 && !feasible(c) {
			ex.sess.concErr = "recorded choice not enabled in concrete replay"
			panic(pathEnd{"concrete replay: recorded choice not enabled"})
		}
	} else {
		c = ex.ctl.Choose(n, feasible)
	}
	ex.explicit = append(ex.explicit, c)
	return c
}

func (ex *Exec) nondet(name string, s Sort) *Term {
	// names are made unique per call sequence
	base := name
	for i := 1; ; i++ {
		dup := false
		for _, n := range ex.nondets {
			if n.Name == name {
				dup = true
				break
			}
		}
		if !dup {
			break
		}
		name = fmt.Sprintf("%s#%d", base, i)
	}
	var t *Term
	if ex.concreteMode {
		mv := ex.sess.model[name]
		switch s.Kind {
		case KBool:
			t = ex.ts.Bool(mv.U == 1)
		case KFloat:
			t = ex.ts.Float(mv.F)
		default:
			t = ex.ts.Int(s, mv.U)
		}
	} else {
		t = ex.ts.Var(name, s)
	}
	ex.nondets = append(ex.nondets, Nondet{name, s, t})
	return t
}

// ---------------------------------------------------------------------------

func (ex *Exec) constValue(c *ssa.Const) Value {
	t := c.Type()
	if c.Value == nil {
		return ex.zero(t)
	}
	if b, ok := t.Underlying().(*types.Basic); ok {
		switch {
		case b.Info()&types.IsString != 0:
			return constant.StringVal(c.Value)
		case b.Info()&types.IsBoolean != 0:
			return ex.ts.Bool(constant.BoolVal(c.Value))
		case b.Info()&types.IsInteger != 0:
			s, _ := typeSort(t)
			if s.Signed {
				return ex.ts.IntS(s, c.Int64())
			}
			return ex.ts.Int(s, c.Uint64())
		case b.Info()&types.IsFloat != 0:
			return ex.ts.Float(c.Float64())
		}
	}
	panic(unsupported("constant of type " + t.String()))
}

func (ex *Exec) get(fr *Frame, v ssa.Value) Value {
	switch x := v.(type) {
	case *ssa.Const:
		return ex.constValue(x)
	case *ssa.Global:
		return &Ptr{Obj: ex.global(x)}
	case *ssa.Function:
		return &Closure{Fn: x}
	case *ssa.Builtin:
		return &Closure{B: x}
	case *ssa.FreeVar:
		for i, fv := range fr.fn.FreeVars {
			if fv == x {
				return fr.bind[i]
			}
		}
		panic("freevar not found")
	}
	val, ok := fr.locals[v]
	if !ok {
		panic(unsupported(fmt.Sprintf("use of undefined SSA value %s in %s", v.Name(), fr.fn)))
	}
	return val
}

func (ex *Exec) global(g *ssa.Global) *Object {
	if o, ok := ex.globals[g]; ok {
		return o
	}
	// make sure the package is initialised (repo packages only)
	if g.Pkg != nil {
		ex.ensureInit(g.Pkg)
		if o, ok := ex.globals[g]; ok {
			return o
		}
	}
	et := g.Type().(*types.Pointer).Elem()
	o := ex.newObject(ex.zero(et), "global "+g.String(), et)
	o.Shared = true
	ex.globals[g] = o
	return o
}

func (ex *Exec) isRepoPkg(p *ssa.Package) bool {
	return p != nil && p.Pkg != nil && strings.HasPrefix(p.Pkg.Path(), "github.com/platinummonkey/go-concurrency-limits")
}

func (ex *Exec) ensureInit(p *ssa.Package) {
	if ex.initDone[p] {
		return
	}
	ex.initDone[p] = true
	if !ex.isRepoPkg(p) {
		return
	}
	// allocate all globals first
	for _, m := range p.Members {
		if g, ok := m.(*ssa.Global); ok {
			if _, ok := ex.globals[g]; !ok {
				et := g.Type().(*types.Pointer).Elem()
				o := ex.newObject(ex.zero(et), "global "+g.String(), et)
				o.Shared = true
				ex.globals[g] = o
			}
		}
	}
	if init := p.Func("init"); init != nil && init.Blocks != nil {
		saved := ex.conc
		ex.conc = nil
		ex.inInit++
		ex.callFunction(init, nil, nil)
		ex.inInit--
		ex.conc = saved
	}
}

// ---------------------------------------------------------------------------

func (ex *Exec) callFunction(fn *ssa.Function, args []Value, bind []Value) Value {
	name := fn.String()
	if fn.Origin() != nil {
		name = fn.Origin().String()
	}
	if in, ok := intrinsics[name]; ok {
		ex.stubs[name] = true
		return in(ex, args)
	}
	if fn.Pkg != nil && !ex.isRepoPkg(fn.Pkg) && (fn.Name() == "init" || fn.Synthetic == "package initializer") {
		return nil
	}
	if fn.Blocks == nil {
		panic(unsupported("call of external function " + name))
	}
	if fn.Pkg != nil && !ex.isRepoPkg(fn.Pkg) {
		if !allowedForeign(name, fn) {
			panic(unsupported("call into foreign package function " + name))
		}
	}
	if fn.Pkg != nil {
		ex.ensureInit(fn.Pkg)
	}
	ex.funcs[name] = true
	ex.depth++
	if ex.depth > 200 {
		panic(unsupported("call depth exceeded"))
	}
	fr := &Frame{fn: fn, locals: map[ssa.Value]Value{}, bind: bind}
	for i, p := range fn.Params {
		fr.locals[p] = args[i]
	}
	ex.frames = append(ex.frames, fr)
	defer func() {
		ex.frames = ex.frames[:len(ex.frames)-1]
		ex.depth--
	}()
	ex.runFrame(fr)
	return fr.result
}

func allowedForeign(name string, fn *ssa.Function) bool {
	if fn.Pkg == nil {
		return true
	}
	switch fn.Pkg.Pkg.Path() {
	case "container/list", "sort", "errors":
		return true
	}
	switch name {
	case "(time.Duration).Nanoseconds", "(time.Duration).Milliseconds", "(time.Duration).Seconds", "(time.Duration).Microseconds",
		"(time.Duration).Minutes", "(time.Duration).Hours", "(time.Duration).Abs", "(time.Duration).Truncate":
		return true
	}
	return false
}

func (ex *Exec) runFrame(fr *Frame) {
	block := fr.fn.Blocks[0]
	var prev *ssa.BasicBlock
	for {
		var next *ssa.BasicBlock
		// phis first (parallel assignment)
		nphi := 0
		var phiVals []Value
		for _, ins := range block.Instrs {
			phi, ok := ins.(*ssa.Phi)
			if !ok {
				break
			}
			nphi++
			idx := -1
			for i, p := range block.Preds {
				if p == prev {
					idx = i
					break
				}
			}
			phiVals = append(phiVals, ex.get(fr, phi.Edges[idx]))
		}
		for i := 0; i < nphi; i++ {
			fr.locals[block.Instrs[i].(*ssa.Phi)] = phiVals[i]
		}
		for _, ins := range block.Instrs[nphi:] {
			ex.steps++
			if ex.steps > ex.h.MaxSteps {
				panic(unsupported("step budget exceeded"))
			}
			if p := ins.Pos(); p.IsValid() {
				fr.pos = p
			}
			switch x := ins.(type) {
			case *ssa.If:
				c := ex.get(fr, x.Cond).(*Term)
				if ex.branch(c, x) {
					next = block.Succs[0]
				} else {
					next = block.Succs[1]
				}
			case *ssa.Jump:
				next = block.Succs[0]
			case *ssa.Return:
				switch len(x.Results) {
				case 0:
					fr.result = nil
				case 1:
					fr.result = ex.get(fr, x.Results[0])
				default:
					tv := make(TupleV, len(x.Results))
					for i, r := range x.Results {
						tv[i] = ex.get(fr, r)
					}
					fr.result = tv
				}
				return
			case *ssa.Panic:
				v := ex.get(fr, x.X)
				msg := "explicit panic"
				if iv, ok := v.(*IfaceV); ok {
					if s, ok := iv.V.(string); ok {
						msg = "panic: " + s
					}
				}
				panic(ex.rtFail("panic", msg))
			case *ssa.RunDefers:
				ex.runDefers(fr)
			default:
				ex.step(fr, ins)
			}
		}
		if next == nil {
			panic("block without terminator")
		}
		prev, block = block, next
	}
}

func (ex *Exec) runDefers(fr *Frame) {
	for len(fr.defers) > 0 {
		d := fr.defers[len(fr.defers)-1]
		fr.defers = fr.defers[:len(fr.defers)-1]
		d()
	}
}

func (ex *Exec) load(p *Ptr) Value {
	if ex.conc != nil {
		return ex.concLoad(p)
	}
	return copyVal(ex.rawLoad(p))
}

func (ex *Exec) store(p *Ptr, v Value) {
	if ex.conc != nil {
		ex.concStore(p, v)
		return
	}
	ex.rawStore(p, copyVal(v))
}

func (ex *Exec) step(fr *Frame, ins ssa.Instruction) {
	switch x := ins.(type) {
	case *ssa.DebugRef:
	case *ssa.Alloc:
		et := x.Type().(*types.Pointer).Elem()
		o := ex.newObject(ex.zero(et), fmt.Sprintf("%s@%s", x.Comment, ex.curPos()), et)
		fr.locals[x] = &Ptr{Obj: o}
	case *ssa.Store:
		ex.store(ex.get(fr, x.Addr).(*Ptr), ex.get(fr, x.Val))
	case *ssa.UnOp:
		fr.locals[x] = ex.unop(fr, x)
	case *ssa.BinOp:
		fr.locals[x] = ex.binop(x.Op, ex.get(fr, x.X), ex.get(fr, x.Y), x.X.Type())
	case *ssa.FieldAddr:
		p := ex.get(fr, x.X).(*Ptr)
		if p.Obj == nil {
			panic(ex.rtFail("nil-deref", "field address of nil pointer"))
		}
		fr.locals[x] = p.child(x.Field)
	case *ssa.Field:
		sv := ex.get(fr, x.X).(*StructV)
		fr.locals[x] = sv.Fields[x.Field]
	case *ssa.IndexAddr:
		fr.locals[x] = ex.indexAddr(ex.get(fr, x.X), ex.get(fr, x.Index).(*Term))
	case *ssa.Index:
		base := ex.get(fr, x.X)
		idx := ex.get(fr, x.Index).(*Term)
		switch b := base.(type) {
		case *ArrayV:
			if idx.IsConst() {
				i := int(idx.SignedVal())
				if i < 0 || i >= len(b.Elems) {
					panic(ex.rtFail("index", "array index out of range"))
				}
				fr.locals[x] = b.Elems[i]
			} else {
				ex.require("index", ex.inBounds(idx, len(b.Elems)), "array index out of range")
				fr.locals[x] = ex.symIndexLoad(b, idx)
			}
		case string:
			if !idx.IsConst() {
				panic(unsupported("symbolic string index"))
			}
			i := int(idx.SignedVal())
			if i < 0 || i >= len(b) {
				panic(ex.rtFail("index", "string index out of range"))
			}
			fr.locals[x] = ex.ts.Int(SInt(8, false), uint64(b[i]))
		default:
			panic(unsupported(fmt.Sprintf("Index on %T", base)))
		}
	case *ssa.Call:
		fr.locals[x] = ex.doCall(fr, x.Common(), x)
	case *ssa.Defer:
		c := x.Common()
		fnv, args := ex.prepareCall(fr, c)
		fr.defers = append(fr.defers, func() { ex.invoke(fnv, args, nil) })
	case *ssa.Go:
		c := x.Common()
		fnv, args := ex.prepareCall(fr, c)
		ex.goStmt(fnv, args)
	case *ssa.MakeClosure:
		fn := x.Fn.(*ssa.Function)
		bind := make([]Value, len(x.Bindings))
		for i, b := range x.Bindings {
			bind[i] = ex.get(fr, b)
		}
		fr.locals[x] = &Closure{Fn: fn, Bind: bind}
	case *ssa.MakeInterface:
		fr.locals[x] = &IfaceV{T: x.X.Type(), V: copyVal(ex.get(fr, x.X))}
	case *ssa.ChangeInterface:
		fr.locals[x] = ex.get(fr, x.X)
	case *ssa.ChangeType:
		fr.locals[x] = ex.get(fr, x.X)
	case *ssa.Convert:
		fr.locals[x] = ex.convert(ex.get(fr, x.X), x.X.Type(), x.Type())
	case *ssa.Extract:
		fr.locals[x] = ex.get(fr, x.Tuple).(TupleV)[x.Index]
	case *ssa.TypeAssert:
		fr.locals[x] = ex.typeAssert(x, ex.get(fr, x.X))
	case *ssa.MakeSlice:
		n := ex.get(fr, x.Len).(*Term)
		c := ex.get(fr, x.Cap).(*Term)
		if !n.IsConst() || !c.IsConst() {
			panic(unsupported("make([]T, symbolic)"))
		}
		et := x.Type().Underlying().(*types.Slice).Elem()
		av := &ArrayV{Elems: make([]Value, int(c.SignedVal()))}
		for i := range av.Elems {
			av.Elems[i] = ex.zero(et)
		}
		o := ex.newObject(av, "makeslice@"+ex.curPos(), nil)
		fr.locals[x] = &SliceV{Arr: o, Len: int(n.SignedVal()), Cap: int(c.SignedVal())}
	case *ssa.MakeMap:
		mv := &MapV{ID: ex.freshID(), Entries: map[string]*mapEntry{}}
		ex.allMaps = append(ex.allMaps, mv)
		fr.locals[x] = mv
	case *ssa.MakeChan:
		sz := ex.get(fr, x.Size).(*Term)
		if !sz.IsConst() {
			panic(unsupported("make(chan, symbolic)"))
		}
		cv := &ChanV{ID: ex.freshID(), Cap: int(sz.SignedVal()), Elem: x.Type().Underlying().(*types.Chan).Elem(), Label: "chan@" + ex.curPos()}
		ex.allChans = append(ex.allChans, cv)
		fr.locals[x] = cv
	case *ssa.MapUpdate:
		m := ex.get(fr, x.Map).(*MapV)
		if m.Nil {
			panic(ex.rtFail("nil-map", "assignment to entry in nil map"))
		}
		k := ex.get(fr, x.Key)
		ex.mapAccess(m, true)
		ex.mapSet(m, k, ex.get(fr, x.Value), x.Map.Type().Underlying().(*types.Map).Elem())
	case *ssa.Lookup:
		fr.locals[x] = ex.lookup(x, ex.get(fr, x.X), ex.get(fr, x.Index))
	case *ssa.Range:
		fr.locals[x] = ex.makeRange(ex.get(fr, x.X))
	case *ssa.Next:
		fr.locals[x] = ex.rangeNext(x, ex.get(fr, x.Iter))
	case *ssa.Slice:
		fr.locals[x] = ex.sliceOp(fr, x)
	case *ssa.Select:
		fr.locals[x] = ex.selectStmt(fr, x)
	case *ssa.Send:
		ex.chanSend(ex.get(fr, x.Chan).(*ChanV), ex.get(fr, x.X))
	default:
		panic(unsupported(fmt.Sprintf("SSA instruction %T", ins)))
	}
}

// freshID numbers maps / channels; in concurrent mode the numbering is per thread so that
// identities created by different isolated thread runs never collide.
func (ex *Exec) freshID() int {
	ex.nextObj++
	if ex.conc.active() {
		return ex.conc.curThread*1000000 + ex.nextObj
	}
	return ex.nextObj
}

func (ex *Exec) inBounds(idx *Term, n int) *Term {
	zero := ex.ts.Int(idx.Sort, 0)
	return ex.ts.And(ex.ts.IntCmp("le", zero, idx), ex.ts.IntCmp("lt", idx, ex.ts.Int(idx.Sort, uint64(n))))
}

func (ex *Exec) indexAddr(base Value, idx *Term) Value {
	switch b := base.(type) {
	case *SliceV:
		if b.Arr == nil {
			panic(ex.rtFail("index", "index of nil slice"))
		}
		if idx.IsConst() {
			i := int(idx.SignedVal())
			if i < 0 || i >= b.Len {
				panic(ex.rtFail("index", fmt.Sprintf("slice index %d out of range [0,%d)", i, b.Len)))
			}
			return (&Ptr{Obj: b.Arr}).child(b.Off + i)
		}
		ex.require("index", ex.inBounds(idx, b.Len), fmt.Sprintf("slice index out of range [0,%d)", b.Len))
		if b.Off != 0 {
			idx = ex.ts.IntBin("add", idx, ex.ts.Int(idx.Sort, uint64(b.Off)))
		}
		return &Ptr{Obj: b.Arr, Sym: idx}
	case *Ptr:
		if b.Obj == nil {
			panic(ex.rtFail("nil-deref", "index of nil array pointer"))
		}
		arr, ok := ex.rawLoad(b).(*ArrayV)
		if !ok {
			panic(unsupported("IndexAddr on pointer to non-array"))
		}
		if idx.IsConst() {
			i := int(idx.SignedVal())
			if i < 0 || i >= len(arr.Elems) {
				panic(ex.rtFail("index", "array index out of range"))
			}
			return b.child(i)
		}
		ex.require("index", ex.inBounds(idx, len(arr.Elems)), "array index out of range")
		return &Ptr{Obj: b.Obj, Path: b.Path, Sym: idx}
	}
	panic(unsupported(fmt.Sprintf("IndexAddr on %T", base)))
}

func (ex *Exec) unop(fr *Frame, x *ssa.UnOp) Value {
	v := ex.get(fr, x.X)
	switch x.Op {
	case token.MUL:
		p := v.(*Ptr)
		return ex.load(p)
	case token.SUB:
		t := v.(*Term)
		if t.Sort.Kind == KFloat {
			return ex.ts.FUn("fneg", t)
		}
		return ex.ts.IntNeg(t)
	case token.NOT:
		return ex.ts.Not(v.(*Term))
	case token.XOR:
		return ex.ts.IntCompl(v.(*Term))
	case token.ARROW:
		val, ok := ex.chanRecv(v.(*ChanV))
		if x.CommaOk {
			return TupleV{val, ok}
		}
		return val
	}
	panic(unsupported("unop " + x.Op.String()))
}

func (ex *Exec) binop(op token.Token, a, b Value, xt types.Type) Value {
	ts := ex.ts
	switch x := a.(type) {
	case *Term:
		y := b.(*Term)
		switch x.Sort.Kind {
		case KBool:
			switch op {
			case token.EQL:
				return ts.Eq(x, y)
			case token.NEQ:
				return ts.Not(ts.Eq(x, y))
			case token.AND, token.LAND:
				return ts.And(x, y)
			case token.OR, token.LOR:
				return ts.Or(x, y)
			}
		case KFloat:
			switch op {
			case token.ADD:
				return ts.FBin("fadd", x, y)
			case token.SUB:
				return ts.FBin("fsub", x, y)
			case token.MUL:
				return ts.FBin("fmul", x, y)
			case token.QUO:
				if ex.sess.r != nil && ex.sess.r.mode == ModeReal && !ex.sess.concrete {
					// tier R models only finite values: a zero divisor (Inf/NaN result) must be excluded
					ex.require("fp-div-zero", ts.Not(ts.FCmp("feq", y, ts.Float(0))), "float division by zero (tier R cannot represent the Inf/NaN result; cover this input in a bit-precise harness)")
				}
				return ts.FBin("fdiv", x, y)
			case token.EQL:
				return ts.FCmp("feq", x, y)
			case token.NEQ:
				return ts.Not(ts.FCmp("feq", x, y))
			case token.LSS:
				return ts.FCmp("flt", x, y)
			case token.LEQ:
				return ts.FCmp("fle", x, y)
			case token.GTR:
				return ts.FCmp("flt", y, x)
			case token.GEQ:
				return ts.FCmp("fle", y, x)
			}
		case KInt:
			switch op {
			case token.ADD:
				return ts.IntBin("add", x, y)
			case token.SUB:
				return ts.IntBin("sub", x, y)
			case token.MUL:
				return ts.IntBin("mul", x, y)
			case token.QUO, token.REM:
				ex.require("div-zero", ts.Not(ts.IntCmp("eq", y, ts.Int(y.Sort, 0))), "integer divide by zero")
				if op == token.QUO {
					return ts.IntBin("div", x, y)
				}
				return ts.IntBin("rem", x, y)
			case token.AND:
				return ts.IntBin("and", x, y)
			case token.OR:
				return ts.IntBin("or", x, y)
			case token.XOR:
				return ts.IntBin("xor", x, y)
			case token.AND_NOT:
				return ts.IntBin("andnot", x, y)
			case token.SHL:
				return ts.IntBin("shl", x, y)
			case token.SHR:
				return ts.IntBin("shr", x, y)
			case token.EQL:
				return ts.IntCmp("eq", x, y)
			case token.NEQ:
				return ts.Not(ts.IntCmp("eq", x, y))
			case token.LSS:
				return ts.IntCmp("lt", x, y)
			case token.LEQ:
				return ts.IntCmp("le", x, y)
			case token.GTR:
				return ts.IntCmp("lt", y, x)
			case token.GEQ:
				return ts.IntCmp("le", y, x)
			}
		}
	case string:
		y := b.(string)
		switch op {
		case token.ADD:
			return x + y
		case token.EQL:
			return ts.Bool(x == y)
		case token.NEQ:
			return ts.Bool(x != y)
		case token.LSS:
			return ts.Bool(x < y)
		case token.LEQ:
			return ts.Bool(x <= y)
		case token.GTR:
			return ts.Bool(x > y)
		case token.GEQ:
			return ts.Bool(x >= y)
		}
	}
	switch op {
	case token.EQL:
		return ex.valuesEqual(a, b)
	case token.NEQ:
		return ts.Not(ex.valuesEqual(a, b))
	}
	panic(unsupported(fmt.Sprintf("binop %s on %T", op, a)))
}

func (ex *Exec) convert(v Value, from, to types.Type) Value {
	fs, fok := typeSort(from)
	tsrt, tok := typeSort(to)
	if fok && tok {
		t := v.(*Term)
		switch {
		case fs.Kind == KInt && tsrt.Kind == KInt:
			return ex.ts.Conv(t, tsrt)
		case fs.Kind == KInt && tsrt.Kind == KFloat:
			return ex.ts.I2F(t)
		case fs.Kind == KFloat && tsrt.Kind == KInt:
			return ex.f2i(t, tsrt)
		case fs.Kind == KFloat && tsrt.Kind == KFloat:
			return t
		case fs.Kind == KBool && tsrt.Kind == KBool:
			return t
		}
	}
	// string <-> string-like named types
	if s, ok := v.(string); ok {
		if b, ok := to.Underlying().(*types.Basic); ok && b.Info()&types.IsString != 0 {
			return s
		}
	}
	if _, ok := from.Underlying().(*types.Pointer); ok {
		return v
	}
	if _, ok := to.Underlying().(*types.Signature); ok {
		return v
	}
	panic(unsupported(fmt.Sprintf("convert %s -> %s", from, to)))
}

// f2i: float64 -> integer conversion with its definedness obligation.
func (ex *Exec) f2i(t *Term, to Sort) Value {
	if !ex.h.NoF2ICheck && ex.inInit == 0 {
		var lo, hi float64
		loCmp := "flt"
		if to.Signed {
			lo = -math.Ldexp(1, to.Width-1) - 1
			hi = math.Ldexp(1, to.Width-1)
			if to.Width == 64 {
				lo, loCmp = -math.Ldexp(1, 63), "fle"
			}
		} else {
			lo = -1
			hi = math.Ldexp(1, to.Width)
		}
		ok := ex.ts.And(ex.ts.Not(ex.ts.FIsNaN(t)), ex.ts.FCmp(loCmp, ex.ts.Float(lo), t), ex.ts.FCmp("flt", t, ex.ts.Float(hi)))
		ex.require("float-to-int", ok, "float64->"+to.String()+" conversion of NaN or out-of-range value (result is implementation-defined)")
	}
	return ex.ts.F2I(t, to)
}

func (ex *Exec) f2iNoCheck(t *Term) *Term { return ex.ts.F2I(t, SInt(64, true)) }

func (ex *Exec) typeAssert(x *ssa.TypeAssert, v Value) Value {
	iv, ok := v.(*IfaceV)
	if !ok {
		if cv, isCtx := v.(*CtxV); isCtx {
			iv = &IfaceV{T: nil, V: cv}
		} else {
			panic(unsupported(fmt.Sprintf("type assert on %T", v)))
		}
	}
	var holds bool
	var res Value
	if iv.T == nil {
		holds = false
		if iv.V != nil {
			// modelled environment value: only interface-to-interface assertions succeed
			if _, isIface := x.AssertedType.Underlying().(*types.Interface); isIface {
				holds = true
				res = iv
			}
		}
	} else if it, isIface := x.AssertedType.Underlying().(*types.Interface); isIface {
		holds = types.Implements(iv.T, it)
		res = iv
	} else {
		holds = types.Identical(iv.T, x.AssertedType)
		res = iv.V
	}
	if x.CommaOk {
		if !holds {
			return TupleV{ex.zero(x.AssertedType), ex.ts.Bool(false)}
		}
		return TupleV{res, ex.ts.Bool(true)}
	}
	if !holds {
		panic(ex.rtFail("type-assert", "interface conversion failed"))
	}
	return res
}

func (ex *Exec) lookup(x *ssa.Lookup, base, idx Value) Value {
	switch b := base.(type) {
	case *MapV:
		et := x.X.Type().Underlying().(*types.Map).Elem()
		var val Value
		found := false
		if !b.Nil {
			ex.mapAccess(b, false)
			if e, ok := b.Entries[ex.keyString(idx)]; ok && ex.entryPresent(e) {
				val, found = ex.entryVal(e), true
			}
		}
		if !found {
			val = ex.zero(et)
		}
		if x.CommaOk {
			return TupleV{val, ex.ts.Bool(found)}
		}
		return val
	case string:
		i := idx.(*Term)
		if !i.IsConst() {
			panic(unsupported("symbolic string index"))
		}
		k := int(i.SignedVal())
		if k < 0 || k >= len(b) {
			panic(ex.rtFail("index", "string index out of range"))
		}
		return ex.ts.Int(SInt(8, false), uint64(b[k]))
	}
	panic(unsupported(fmt.Sprintf("lookup on %T", base)))
}

type rangeIter struct {
	m    *MapV
	keys []string
	pos  int
	str  string
}

func (ex *Exec) makeRange(v Value) Value {
	switch x := v.(type) {
	case *MapV:
		it := &rangeIter{m: x}
		if !x.Nil {
			ex.mapAccess(x, false)
			it.keys = x.sortedKeys()
		}
		return it
	case string:
		return &rangeIter{str: x}
	}
	panic(unsupported(fmt.Sprintf("range over %T", v)))
}

func (ex *Exec) rangeNext(x *ssa.Next, v Value) Value {
	it := v.(*rangeIter)
	tt := x.Type().(*types.Tuple)
	if x.IsString {
		panic(unsupported("range over string"))
	}
	for it.pos < len(it.keys) {
		k := it.keys[it.pos]
		it.pos++
		if e, ok := it.m.Entries[k]; ok && ex.entryPresent(e) {
			return TupleV{ex.ts.Bool(true), e.K, ex.entryVal(e)}
		}
	}
	kz, vz := Value(nil), Value(nil)
	if tt.At(1).Type() != nil {
		if _, inv := tt.At(1).Type().(*types.Basic); !inv || tt.At(1).Type().(*types.Basic).Kind() != types.Invalid {
			kz = ex.zero(tt.At(1).Type())
		}
	}
	if b, inv := tt.At(2).Type().(*types.Basic); !inv || b.Kind() != types.Invalid {
		vz = ex.zero(tt.At(2).Type())
	}
	return TupleV{ex.ts.Bool(false), kz, vz}
}

func (ex *Exec) sliceOp(fr *Frame, x *ssa.Slice) Value {
	base := ex.get(fr, x.X)
	geti := func(v ssa.Value, def int) int {
		if v == nil {
			return def
		}
		t := ex.get(fr, v).(*Term)
		if !t.IsConst() {
			panic(unsupported("symbolic slice bound"))
		}
		return int(t.SignedVal())
	}
	switch b := base.(type) {
	case *SliceV:
		lo := geti(x.Low, 0)
		hi := geti(x.High, b.Len)
		mx := geti(x.Max, b.Cap)
		if lo < 0 || hi < lo || hi > b.Cap || mx < hi || mx > b.Cap {
			panic(ex.rtFail("slice-bounds", "slice bounds out of range"))
		}
		if b.Arr == nil {
			return &SliceV{}
		}
		return &SliceV{Arr: b.Arr, Off: b.Off + lo, Len: hi - lo, Cap: mx - lo}
	case *Ptr:
		arr := ex.rawLoad(b).(*ArrayV)
		if len(b.Path) != 0 {
			panic(unsupported("slicing of embedded array"))
		}
		lo := geti(x.Low, 0)
		hi := geti(x.High, len(arr.Elems))
		mx := geti(x.Max, len(arr.Elems))
		if lo < 0 || hi < lo || hi > len(arr.Elems) || mx < hi || mx > len(arr.Elems) {
			panic(ex.rtFail("slice-bounds", "slice bounds out of range"))
		}
		return &SliceV{Arr: b.Obj, Off: lo, Len: hi - lo, Cap: mx - lo}
	case string:
		lo := geti(x.Low, 0)
		hi := geti(x.High, len(b))
		if lo < 0 || hi < lo || hi > len(b) {
			panic(ex.rtFail("slice-bounds", "string slice bounds out of range"))
		}
		return b[lo:hi]
	}
	panic(unsupported(fmt.Sprintf("slice of %T", base)))
}

// ---------------------------------------------------------------------------
// calls

func (ex *Exec) prepareCall(fr *Frame, c *ssa.CallCommon) (Value, []Value) {
	args := make([]Value, 0, len(c.Args)+1)
	if c.IsInvoke() {
		recv := ex.get(fr, c.Value)
		args = append(args, recv)
		for _, a := range c.Args {
			args = append(args, ex.get(fr, a))
		}
		return &invokeTarget{method: c.Method}, args
	}
	for _, a := range c.Args {
		args = append(args, ex.get(fr, a))
	}
	return ex.get(fr, c.Value), args
}

type invokeTarget struct{ method *types.Func }

func (ex *Exec) doCall(fr *Frame, c *ssa.CallCommon, site *ssa.Call) Value {
	fnv, args := ex.prepareCall(fr, c)
	return ex.invoke(fnv, args, site)
}

func (ex *Exec) invoke(fnv Value, args []Value, site *ssa.Call) Value {
	switch f := fnv.(type) {
	case *invokeTarget:
		return ex.invokeMethod(args[0], f.method, args[1:])
	case *Closure:
		if f.B != nil {
			return ex.builtin(f.B, args, site)
		}
		if f.Intr != "" {
			ex.stubs[f.Intr] = true
			return intrinsics[f.Intr](ex, append(append([]Value{}, f.Bind...), args...))
		}
		if f.Fn == nil {
			panic(ex.rtFail("nil-func", "call of nil function"))
		}
		return ex.callFunction(f.Fn, args, f.Bind)
	}
	panic(unsupported(fmt.Sprintf("call of %T", fnv)))
}

func (ex *Exec) invokeMethod(recv Value, m *types.Func, args []Value) Value {
	switch r := recv.(type) {
	case *CtxV:
		return ex.ctxMethod(r, m.Name(), args)
	case *IfaceV:
		if r.T == nil {
			switch inner := r.V.(type) {
			case *CtxV:
				return ex.ctxMethod(inner, m.Name(), args)
			case *OpaqueV:
				return ex.opaqueMethod(inner, m.Name(), args)
			case nil:
				panic(ex.rtFail("nil-deref", "method "+m.Name()+" called on nil interface"))
			}
			panic(unsupported(fmt.Sprintf("invoke on modelled %T", r.V)))
		}
		sel := ex.prog.MethodSets.MethodSet(r.T).Lookup(m.Pkg(), m.Name())
		if sel == nil {
			panic(unsupported("method " + m.Name() + " not found on " + r.T.String()))
		}
		fn := ex.prog.MethodValue(sel)
		if fn == nil {
			panic(unsupported("no SSA for method " + m.Name() + " of " + r.T.String()))
		}
		return ex.callFunction(fn, append([]Value{r.V}, args...), nil)
	case *OpaqueV:
		return ex.opaqueMethod(r, m.Name(), args)
	}
	panic(unsupported(fmt.Sprintf("invoke %s on %T", m.Name(), recv)))
}

func (ex *Exec) builtin(b *ssa.Builtin, args []Value, site *ssa.Call) Value {
	switch b.Name() {
	case "len":
		switch x := args[0].(type) {
		case *SliceV:
			return ex.ts.IntS(SInt(64, true), int64(x.Len))
		case string:
			return ex.ts.IntS(SInt(64, true), int64(len(x)))
		case *MapV:
			if !x.Nil {
				ex.mapAccess(x, false)
			}
			return ex.mapLen(x)
		case *ChanV:
			return ex.ts.IntS(SInt(64, true), int64(len(x.Buf)))
		case *ArrayV:
			return ex.ts.IntS(SInt(64, true), int64(len(x.Elems)))
		case *Ptr:
			return ex.ts.IntS(SInt(64, true), int64(len(ex.rawLoad(x).(*ArrayV).Elems)))
		}
	case "cap":
		switch x := args[0].(type) {
		case *SliceV:
			return ex.ts.IntS(SInt(64, true), int64(x.Cap))
		case *ChanV:
			return ex.ts.IntS(SInt(64, true), int64(x.Cap))
		}
	case "append":
		s := args[0].(*SliceV)
		var add []Value
		switch t := args[1].(type) {
		case *SliceV:
			for i := 0; i < t.Len; i++ {
				add = append(add, ex.load((&Ptr{Obj: t.Arr}).child(t.Off+i)))
			}
		default:
			panic(unsupported(fmt.Sprintf("append of %T", args[1])))
		}
		if len(add) == 0 {
			return s
		}
		if s.Arr != nil && s.Len+len(add) <= s.Cap {
			for i, v := range add {
				ex.store((&Ptr{Obj: s.Arr}).child(s.Off+s.Len+i), v)
			}
			return &SliceV{Arr: s.Arr, Off: s.Off, Len: s.Len + len(add), Cap: s.Cap}
		}
		ncap := (s.Len + len(add)) * 2
		av := &ArrayV{Elems: make([]Value, ncap)}
		for i := 0; i < s.Len; i++ {
			av.Elems[i] = ex.load((&Ptr{Obj: s.Arr}).child(s.Off + i))
		}
		for i, v := range add {
			av.Elems[s.Len+i] = copyVal(v)
		}
		var et types.Type
		if site != nil {
			et = site.Type().Underlying().(*types.Slice).Elem()
		}
		for i := s.Len + len(add); i < ncap; i++ {
			if et == nil {
				panic(unsupported("append growth without type"))
			}
			av.Elems[i] = ex.zero(et)
		}
		o := ex.newObject(av, "append@"+ex.curPos(), nil)
		return &SliceV{Arr: o, Len: s.Len + len(add), Cap: ncap}
	case "delete":
		m := args[0].(*MapV)
		if !m.Nil {
			ex.mapAccess(m, true)
			ex.mapDelete(m, args[1])
		}
		return nil
	case "close":
		ex.chanClose(args[0].(*ChanV))
		return nil
	case "min", "max":
		acc := args[0].(*Term)
		for _, a := range args[1:] {
			y := a.(*Term)
			if acc.Sort.Kind == KFloat {
				acc = ex.ts.FBin("f"+b.Name(), acc, y)
			} else if b.Name() == "min" {
				acc = ex.ts.Ite(ex.ts.IntCmp("lt", y, acc), y, acc)
			} else {
				acc = ex.ts.Ite(ex.ts.IntCmp("lt", acc, y), y, acc)
			}
		}
		return acc
	case "panic":
		panic(ex.rtFail("panic", "explicit panic"))
	case "print", "println":
		return nil
	}
	panic(unsupported("builtin " + b.Name()))
}

// mapAccess is a hook for the race analysis: a Go map is one location.
// entryPresent: is the entry in the map?  Cell-backed entries (event-order mode) read the shared
// "present" flag and fork on it.
func (ex *Exec) entryPresent(e *mapEntry) bool {
	if e.Cell == nil {
		return true
	}
	t, ok := ex.load(&Ptr{Obj: e.Cell, Path: []int{0}}).(*Term)
	if !ok {
		panic(unsupported("map cell flag is not a term"))
	}
	return ex.branch(t, nil)
}

func (ex *Exec) entryVal(e *mapEntry) Value {
	if e.Cell == nil {
		return copyVal(e.V)
	}
	return ex.load(&Ptr{Obj: e.Cell, Path: []int{1}})
}

func (ex *Exec) mapSet(m *MapV, k, v Value, elem types.Type) {
	ks := ex.keyString(k)
	if e, ok := m.Entries[ks]; ok && e.Cell != nil {
		ex.store(&Ptr{Obj: e.Cell, Path: []int{0}}, ex.ts.Bool(true))
		ex.store(&Ptr{Obj: e.Cell, Path: []int{1}}, v)
		return
	}
	m.Entries[ks] = &mapEntry{K: k, V: copyVal(v)}
	if ex.conc != nil {
		ex.concNewMapKey(m, ks, k, elem)
	}
}

func (ex *Exec) mapDelete(m *MapV, k Value) {
	ks := ex.keyString(k)
	if e, ok := m.Entries[ks]; ok && e.Cell != nil {
		ex.store(&Ptr{Obj: e.Cell, Path: []int{0}}, ex.ts.Bool(false))
		return
	}
	delete(m.Entries, ks)
}

func (ex *Exec) mapLen(m *MapV) Value {
	n := 0
	var sym *Term
	for _, k := range m.sortedKeys() {
		e := m.Entries[k]
		if e.Cell == nil {
			n++
			continue
		}
		t := ex.load(&Ptr{Obj: e.Cell, Path: []int{0}}).(*Term)
		one := ex.ts.Ite(t, ex.ts.IntS(SInt(64, true), 1), ex.ts.IntS(SInt(64, true), 0))
		if sym == nil {
			sym = one
		} else {
			sym = ex.ts.IntBin("add", sym, one)
		}
	}
	base := ex.ts.IntS(SInt(64, true), int64(n))
	if sym == nil {
		return base
	}
	return ex.ts.IntBin("add", base, sym)
}

func (ex *Exec) mapAccess(m *MapV, write bool) {
	if ex.conc != nil {
		ex.concMapAccess(m, write)
	}
}
