package main

// Replay of solver models: (a) concrete re-execution of the same SSA inside the
// engine with every symbolic input fixed to the model value (exact IEEE doubles,
// wrap-around integers: independent of the SMT encoding), (b) native replay of
// the harness on the real build through `go test -overlay`.

import (
	"encoding/json"
	"fmt"
	"os"
	"os/exec"
	"path/filepath"
	"regexp"
	"sort"
	"strings"
	"sync"
	"time"
)

type replayer struct {
	cfg     *Config
	ld      *Loaded
	all     []*Harness
	overlay map[string][]byte
	bins    map[string]string // pkg -> test binary
	binErr  map[string]string
	mu      sync.Mutex
	log     []interface{}
}

func newReplayer(cfg *Config, ld *Loaded, all []*Harness, overlay map[string][]byte) *replayer {
	return &replayer{cfg: cfg, ld: ld, all: all, overlay: overlay, bins: map[string]string{}, binErr: map[string]string{}}
}

func (rp *replayer) cleanup() {}

type replayVal struct {
	Kind string `json:"kind"`
	U    string `json:"u"`
}

func replayVector(c *Candidate) []byte {
	vals := map[string]replayVal{}
	for k, v := range c.Model {
		switch v.Sort.Kind {
		case KBool:
			vals[k] = replayVal{"bool", fmt.Sprint(v.U)}
		case KFloat:
			vals[k] = replayVal{"float", fmt.Sprintf("%d", floatBits(v.F))}
		default:
			vals[k] = replayVal{"int", fmt.Sprintf("%d", v.U)}
		}
	}
	doc := map[string]interface{}{"harness": c.Harness, "values": vals, "choices": c.ChoiceSeq, "assertion": c.OblID}
	b, _ := json.MarshalIndent(doc, "", " ")
	return b
}

func (rp *replayer) replay(r *HarnessResult, c *Candidate) {
	entry := map[string]interface{}{"harness": c.Harness, "assertion": c.OblID, "model": c.ModelSummary()}
	defer func() {
		entry["result"] = c.Replay
		rp.log = append(rp.log, entry)
	}()
	if c.Conc != nil {
		// concurrent counter-examples are validated by concrete re-execution under the schedule (conc.go)
		if c.Replay == "" {
			c.Replay = "skipped"
		}
		return
	}
	// (a) engine-concrete
	ok, out := rp.engineReplay(r.H, c)
	entry["engine_concrete"] = out
	c.ReplayOut += "engine concrete re-execution: " + out + "\n"
	if !ok {
		c.Replay = "not-reproduced"
		return
	}
	mode := r.H.Opts["replay"]
	if c.OblID == "rt:float-to-int" {
		c.Replay = "confirmed"
		c.ReplayOut += "native replay not applicable: float64->int conversion of NaN/out-of-range does not panic (implementation-defined result); confirmed by concrete re-execution\n"
		return
	}
	if mode == "engine" || rp.cfg.NoReplay {
		c.Replay = "confirmed"
		c.ReplayOut += "native replay skipped: the harness environment (clock / scheduler) cannot be driven natively; confirmed by concrete re-execution\n"
		return
	}
	// (b) native
	res, nout := rp.nativeReplay(r.H, c)
	entry["native"] = res
	c.ReplayOut += "native replay: " + res + "\n" + nout
	if res == "confirmed" {
		c.Replay = "confirmed"
	} else {
		c.Replay = "not-reproduced(native:" + res + ")"
	}
}

// engineReplay re-executes the harness with all symbolic inputs fixed.
func (rp *replayer) engineReplay(h *Harness, c *Candidate) (confirmed bool, out string) {
	return concreteRun(rp.ld, h, c)
}

func concreteRun(ld *Loaded, h *Harness, c *Candidate) (confirmed bool, out string) {
	pkg := ld.pkgs[h.Pkg]
	fn := pkg.Func(h.Name)
	res := &HarnessResult{H: h, Obls: map[string]*OblStat{}, Reaches: map[string]int{}, Funcs: map[string]bool{}, Stubs: map[string]bool{}, UnwindFail: map[string]bool{}}
	ex := newExec(ld, h, nil, res, nil, nil, func([]int) {})
	ex.sess.concrete = true
	ex.sess.model = c.Model
	ex.explicitIn = append([]int{}, c.Explicit...)
	ex.concreteMode = true
	defer func() {
		if r := recover(); r != nil {
			switch e := r.(type) {
			case pathEnd:
				out = "path ended: " + e.reason
			case goBlocked:
				out = "blocked forever: " + e.why
				if h.Blocked == "violation" {
					ex.sess.violated = append(ex.sess.violated, "blocked-forever")
				}
			case unsupportedErr:
				out = "unsupported: " + e.msg
			default:
				out = fmt.Sprintf("engine panic: %v", r)
			}
		}
		for _, v := range ex.sess.violated {
			if v == c.OblID {
				confirmed = true
			}
		}
		out = fmt.Sprintf("%s; violated=%v", out, ex.sess.violated)
		if ex.sess.concErr != "" {
			out += "; error=" + ex.sess.concErr
			confirmed = false
		}
	}()
	ex.callFunction(fn, nil, nil)
	ex.endOfPathChecks()
	out = "completed"
	return
}

var resultRe = regexp.MustCompile(`VERIF-RESULT (\{.*\})`)

func (rp *replayer) testBinary(h *Harness) (string, string) {
	rp.mu.Lock()
	defer rp.mu.Unlock()
	if b, ok := rp.bins[h.Pkg]; ok {
		return b, rp.binErr[h.Pkg]
	}
	// generated test file listing the harnesses of the package
	pkgName := ""
	var names []string
	for _, o := range rp.all {
		if o.Pkg == h.Pkg && !o.Conc {
			names = append(names, o.Name)
		}
	}
	sort.Strings(names)
	src, _ := os.ReadFile(h.File)
	for _, l := range strings.Split(string(src), "\n") {
		if strings.HasPrefix(l, "package ") {
			pkgName = strings.TrimSpace(strings.TrimPrefix(l, "package "))
			break
		}
	}
	var sb strings.Builder
	sb.WriteString("//go:build verif\n\npackage " + pkgName + "\n\nimport (\n\t\"testing\"\n\tverif \"" + modPath + "/zz_verifrt\"\n)\n\n")
	sb.WriteString("func TestVerifReplay(t *testing.T) {\n\tverif.RunReplay(t, map[string]func(){\n")
	for _, n := range names {
		fmt.Fprintf(&sb, "\t\t%q: %s,\n", n, n)
	}
	sb.WriteString("\t})\n}\n")
	dir := filepath.Join(rp.cfg.Tmp, "replay_"+strings.ReplaceAll(h.Pkg, "/", "_"))
	os.MkdirAll(dir, 0755)
	repl := map[string]string{}
	i := 0
	for target, content := range rp.overlay {
		i++
		f := filepath.Join(dir, fmt.Sprintf("ov%d_%s", i, filepath.Base(target)))
		os.WriteFile(f, content, 0644)
		repl[target] = f
	}
	tf := filepath.Join(dir, "replay_test.go")
	os.WriteFile(tf, []byte(sb.String()), 0644)
	repl[filepath.Join(rp.cfg.Repo, h.Pkg, "zz_verif_replay_test.go")] = tf
	ob, _ := json.Marshal(map[string]interface{}{"Replace": repl})
	ovf := filepath.Join(dir, "overlay.json")
	os.WriteFile(ovf, ob, 0644)
	bin := filepath.Join(dir, "replay.test")
	cmd := exec.Command("go", "test", "-c", "-vet=off", "-tags", "verif", "-overlay", ovf, "-modfile="+filepath.Join(rp.cfg.Tmp, "go.mod"), "-o", bin, "./"+h.Pkg)
	cmd.Dir = rp.cfg.Repo
	cmd.Env = goEnv(rp.cfg)
	outb, err := cmd.CombinedOutput()
	rp.bins[h.Pkg] = bin
	if err != nil {
		rp.binErr[h.Pkg] = "build failed: " + err.Error() + "\n" + string(outb)
	}
	return bin, rp.binErr[h.Pkg]
}

func (rp *replayer) nativeReplay(h *Harness, c *Candidate) (string, string) {
	bin, berr := rp.testBinary(h)
	if berr != "" {
		return "error", berr
	}
	vf := filepath.Join(rp.cfg.Tmp, fmt.Sprintf("vec_%s_%d.json", h.Name, time.Now().UnixNano()))
	os.WriteFile(vf, replayVector(c), 0644)
	defer os.Remove(vf)
	cmd := exec.Command(bin, "-test.run", "^TestVerifReplay$", "-test.v", "-test.timeout", "60s")
	cmd.Dir = filepath.Join(rp.cfg.Repo, h.Pkg)
	cmd.Env = append(os.Environ(), "VERIF_REPLAY="+vf)
	outb, _ := cmd.CombinedOutput()
	out := string(outb)
	m := resultRe.FindStringSubmatch(out)
	if m == nil {
		return "error", out
	}
	var res struct {
		Status string `json:"status"`
		ID     string `json:"id"`
		Msg    string `json:"msg"`
	}
	if err := json.Unmarshal([]byte(m[1]), &res); err != nil {
		return "error", out
	}
	switch res.Status {
	case "assert-failed":
		if res.ID == c.OblID {
			return "confirmed", out
		}
		return "other-assertion:" + res.ID, out
	case "panic":
		if c.Kind == "runtime" {
			return "confirmed", out
		}
		return "panic:" + res.Msg, out
	case "blocked":
		if c.OblID == "blocked-forever" {
			return "confirmed", out
		}
		return "blocked", out
	}
	return res.Status, out
}
