package main

// Solver session of one path, obligations, candidate violations.

import (
	"fmt"
	"os"
	"sort"
	"strings"
	"time"
)

var verboseLog bool

type PathCtl struct {
	prefix  []int
	pos     int
	trace   []int
	pending *[][]int
	push    func([]int)
}

func (p *PathCtl) Choose(n int, feasible func(i int) bool) int {
	if p.pos < len(p.prefix) {
		c := p.prefix[p.pos]
		p.pos++
		p.trace = append(p.trace, c)
		return c
	}
	first := -1
	for i := 0; i < n; i++ {
		if !feasible(i) {
			continue
		}
		if first < 0 {
			first = i
			continue
		}
		alt := make([]int, len(p.trace)+1)
		copy(alt, p.trace)
		alt[len(p.trace)] = i
		if p.push != nil {
			p.push(alt)
		} else {
			*p.pending = append(*p.pending, alt)
		}
	}
	if first >= 0 {
		p.pos++
		p.prefix = append(p.prefix, first)
		p.trace = append(p.trace, first)
	}
	return first
}

type OblStat struct {
	ID            string
	Kind          string
	Posed         int // queries posed (pc ∧ ¬cond)
	Discharged    int // answered unsat (or constant-true)
	Trivial       int // constant-folded to true
	Nontrivial    int // reachable and still symbolic
	PathDependent int // constant-true on a path selected by symbolic decisions
	Reached       int
	Pos           map[string]bool
	SolverMs      float64
	Sample        string
}

type Candidate struct {
	Property        string
	Harness         string
	Pkg             string
	OblID           string
	Kind            string
	Pos             string
	Msg             string
	Model           map[string]ModelVal
	Choices         map[string]int
	Classes         map[string]bool
	PathTrace       []int
	Explicit        []int
	ChoiceSeq       []int
	Mode            Mode
	Known           *Finding
	Replay          string // "confirmed","not-reproduced","assume-failed","error","skipped"
	ReplayOut       string
	Conc            *ConcCex
	EngineConfirmed bool
	EngineOut       string
}

type ConcCex struct {
	Order []string
}

type HarnessResult struct {
	H              *Harness
	Paths          int
	PathsPruned    int
	Obls           map[string]*OblStat
	Candidates     []*Candidate
	Inconclusive   []string
	Errors         []string
	Reaches        map[string]int
	Queries        int
	SolverTime     time.Duration
	Funcs          map[string]bool
	Stubs          map[string]bool
	Wall           time.Duration
	UnwindFail     map[string]bool
	Undecided      []string // claims=none harnesses: obligations left undecided (not claimed)
	ExpectedIDs    []string
	ExpectedReach  []string
	Samples        []map[string]interface{}
	FpOps          int
	ConcCombos     int
	PrunedPrefixes int // prefixes of thread-path combinations whose relaxed event-order query is unsat
	PartialQueries int
	PrunedCombos   int // thread-path combinations rejected by the solver-free necessary conditions
	Events         int
	Blocked        int
	Winners        []string
	UnwindCuts     int
	FeasibleCombos int
	RacePairs      int
	PassBoundHit   int
	RacePathCaps   int
}

type Session struct {
	solver       *Solver
	r            *Renderer
	ts           *TS
	ex           *Exec
	res          *HarnessResult
	script       strings.Builder
	choices      map[string]int
	feasTO       time.Duration
	oblTO        time.Duration
	known        []*Finding
	ended        bool
	lastRestarts int
	// concrete re-execution mode
	concrete bool
	model    map[string]ModelVal
	violated []string
	concErr  string
	pcTerms  []*Term
}

func (s *Session) send(text string) {
	s.script.WriteString(text)
	s.solver.Send(text)
}

func (s *Session) Begin() {
	if s.concrete {
		return
	}
	if s.solver.kind.Name == SolverCVC5.Name {
		s.solver.Restart()
		s.lastRestarts = s.solver.restarts
		s.script.Reset()
		s.send("(set-logic ALL)\n" + s.r.Prelude())
		return
	}
	s.solver.Send("(reset)\n")
	s.script.Reset()
	s.send(s.r.Prelude())
}

func (s *Session) ref(t *Term) string {
	n := s.r.Ref(t)
	if d := s.r.Take(); d != "" {
		s.send(d)
	}
	return n
}

type pcMarkT struct {
	nTerms                                int
	scriptLen                             int
	emitLen                               int
	nAx, nFam, nGrid, nAnch, nI2F, nRange int
}

func (s *Session) pcMark() pcMarkT {
	return pcMarkT{len(s.pcTerms), s.script.Len(), len(s.r.emitLog), len(s.r.Axioms), len(s.r.family), len(s.r.grid), len(s.r.anchors), len(s.r.i2fs), len(s.r.RangeConds)}
}

// pcReset rolls the solver context back to a mark (used between isolated thread explorations).
func (s *Session) pcReset(m pcMarkT) {
	if s.concrete {
		return
	}
	s.pcTerms = s.pcTerms[:m.nTerms]
	text := s.script.String()[:m.scriptLen]
	s.script.Reset()
	s.script.WriteString(text)
	for _, id := range s.r.emitLog[m.emitLen:] {
		delete(s.r.emitted, id)
	}
	s.r.emitLog = s.r.emitLog[:m.emitLen]
	s.r.Axioms = s.r.Axioms[:m.nAx]
	s.r.family = s.r.family[:m.nFam]
	s.r.grid = s.r.grid[:m.nGrid]
	for _, a := range s.r.anchors[m.nAnch:] {
		delete(s.r.anchorSet, realLit(a))
	}
	s.r.anchors = s.r.anchors[:m.nAnch]
	s.r.i2fs = s.r.i2fs[:m.nI2F]
	s.r.RangeConds = s.r.RangeConds[:m.nRange]
	s.solver.Send("(reset)\n" + text)
}

func (s *Session) pcSince(m interface{}) []*Term {
	n := 0
	if mk, ok := m.(pcMarkT); ok {
		n = mk.nTerms
	}
	return append([]*Term{}, s.pcTerms[n:]...)
}

func (s *Session) AssertPC(t *Term) {
	if t.IsTrue() {
		return
	}
	s.pcTerms = append(s.pcTerms, t)
	if s.concrete {
		if t.IsFalse() {
			s.concErr = "model violates a path constraint / environment contract"
			panic(pathEnd{"concrete replay: constraint false"})
		}
		s.concErr = "non-constant constraint in concrete mode: " + t.String()
		return
	}
	n := s.ref(t)
	s.send("(assert " + n + ")\n")
}

// query poses pc ∧ extra.  In tier R the axioms of the rounded-real abstraction are added in
// stages (linear facts, then nonlinear error bounds, then pairwise monotonicity): every stage is an
// over-approximation of IEEE arithmetic, so `unsat` at any stage is final; `sat` only counts at the
// last stage.  maxLevel limits the refinement (feasibility checks use the cheap stage only).
func (s *Session) query(extra string, to time.Duration) string {
	return s.queryLevels(extra, to, 3, nil)
}

// onSat is called when a stage answers sat (final = last stage); returning true accepts the
// model (it was confirmed by concrete re-execution), which ends the refinement early.
func (s *Session) queryLevels(extra string, to time.Duration, maxLevel int, onSat func(final bool) bool) string {
	s.solver.Send("(push 1)\n" + extra)
	t0 := time.Now()
	defer func() { s.res.SolverTime += time.Since(t0) }()
	if s.r.mode != ModeReal {
		s.res.Queries++
		a := s.solver.CheckSat(to)
		if a == "sat" && onSat != nil {
			onSat(true)
		}
		return a
	}
	ans := "unknown"
	lastLvl := 1
	for lvl := 1; lvl <= maxLevel; lvl++ {
		if s.r.AxiomText(lvl-1, lvl) != "" {
			lastLvl = lvl
		}
	}
	prev := 0
	for lvl := 1; lvl <= maxLevel; lvl++ {
		ax := s.r.AxiomText(prev, lvl)
		if ax == "" && lvl > 1 {
			prev = lvl
			continue
		}
		prev = lvl
		s.solver.Send(ax)
		s.res.Queries++
		stageTO := to
		if lvl < maxLevel {
			stageTO = to / 4
			if stageTO < time.Second {
				stageTO = time.Second
			}
		}
		restarts := s.solver.restarts
		ans = s.solver.CheckSat(stageTO)
		if ans == "unsat" {
			return ans
		}
		if ans == "sat" && onSat != nil {
			if onSat(lvl >= lastLvl) {
				return ans
			}
		}
		if s.solver.restarts != restarts {
			// hard timeout: the process was replaced; rebuild the context for the next stage
			s.lastRestarts = s.solver.restarts
			s.resync()
			s.solver.Send("(push 1)\n" + extra + s.r.AxiomText(0, lvl))
		}
		if strings.HasPrefix(ans, "error") {
			return ans
		}
	}
	return ans
}

func (s *Session) endQuery() {
	if s.solver.dead {
		return
	}
	s.solver.Send("(pop 1)\n")
}

// recover a restarted solver: replay the script
func (s *Session) resync() {
	if s.solver.kind.Name == SolverCVC5.Name {
		s.solver.Send(s.script.String())
		return
	}
	s.solver.Send("(reset)\n" + s.script.String())
}

func (s *Session) Feasible(t *Term) bool {
	if t.IsTrue() {
		return true
	}
	if t.IsFalse() {
		return false
	}
	if s.concrete {
		s.concErr = "non-constant condition in concrete mode: " + t.String()
		return true
	}
	n := s.ref(t)
	tq := time.Now()
	ans := s.queryLevels("(assert "+n+")\n", s.feasTO, 1, nil)
	if d := time.Since(tq); d > 500*time.Millisecond && verboseLog {
		logf("    slow feasibility %.1fs -> %s at %s\n", d.Seconds(), ans, s.ex.curPos())
	}
	if ans == "unknown" && s.solver.Queries > 0 && s.solverRestarted() {
		return true
	}
	s.endQuery()
	if strings.HasPrefix(ans, "error") {
		s.res.Errors = append(s.res.Errors, "solver error in feasibility check: "+ans)
		if os.Getenv("VERIF_DEBUG_FEAS") != "" {
			logf("    feasibility error at %s: %s\n      term: %.600s\n", s.ex.curPos(), ans, t.String())
			if d := os.Getenv("VERIF_DEBUG_FEAS"); d != "1" {
				os.WriteFile(d, []byte(s.script.String()+"\n;; query\n(assert "+n+")\n"), 0o644)
			}
		}
		return true
	}
	return ans != "unsat"
}

// solverRestarted detects a hard-timeout restart (the process was replaced) and resyncs.
func (s *Session) solverRestarted() bool {
	if s.lastRestarts != s.solver.restarts {
		s.lastRestarts = s.solver.restarts
		s.resync()
		return true
	}
	return false
}

func (s *Session) NoteChoice(name string, c int) {
	if s.choices == nil {
		s.choices = map[string]int{}
	}
	s.choices[name] = c
}

func (s *Session) Reach(label string) {
	if c := s.ex.conc; c.active() {
		c.cur.Reach = append(c.cur.Reach, label)
		return
	}
	s.res.Reaches[label]++
}

func (s *Session) UnwindFailure(pos string) {
	s.res.UnwindFail[pos] = true
}

func (s *Session) stat(id, kind string) *OblStat {
	st, ok := s.res.Obls[id]
	if !ok {
		st = &OblStat{ID: id, Kind: kind, Pos: map[string]bool{}}
		s.res.Obls[id] = st
	}
	return st
}

// Obligation poses pc ∧ ¬cond.  Returns false when the path cannot continue under cond.
func (s *Session) Obligation(id, kind string, cond *Term, pos, msg string) bool {
	if kind == "runtime" {
		if i := strings.Index(id, "@"); i >= 0 {
			id = id[:i]
		}
	}
	if c := s.ex.conc; c.active() {
		// concurrent mode: obligations are recorded per thread path and posed on the composition
		if s.res.H.Opts["race"] == "1" && kind == "runtime" {
			// race harnesses decide data-race freedom only: value-dependent run-time checks belong to
			// the sequential harnesses (reads of shared locations are unconstrained here)
			return !cond.IsFalse()
		}
		c.cur.Asserts = append(c.cur.Asserts, recAssert{ID: id, Cond: cond, Pos: pos, Kind: kind, Msg: msg})
		return !cond.IsFalse()
	}
	st := s.stat(id, kind)
	st.Reached++
	st.Pos[pos] = true
	if s.concrete {
		if cond.IsFalse() {
			s.violated = append(s.violated, id)
			return false
		}
		if !cond.IsTrue() {
			s.concErr = "non-constant obligation in concrete mode: " + cond.String()
		}
		return true
	}
	if cond.IsTrue() {
		st.Posed++
		st.Discharged++
		st.Trivial++
		if len(s.ex.ctl.trace) > 0 {
			// constant on this path, but the path itself was selected by solver-checked symbolic decisions
			st.PathDependent++
		}
		return true
	}
	st.Posed++
	st.Nontrivial++
	t0 := time.Now()
	defer func() {
		st.SolverMs += float64(time.Since(t0)) / 1e6
		if d := time.Since(t0); d > 500*time.Millisecond && verboseLog {
			logf("    slow obligation %s %.1fs at %s winners=%v\n", id, d.Seconds(), pos, s.res.Winners)
		}
	}()
	var blockers []string
	neg := s.ref(s.ts.Not(cond))
	violated := false
	for iter := 0; iter < 12; iter++ {
		extra := "(assert " + neg + ")\n" + strings.Join(blockers, "")
		var ans string
		var msolver *Solver
		var done func()
		var staged *Candidate
		if s.res.H.Portfolio {
			ans, msolver, done = s.portfolioSolve(extra)
		} else {
			maxLvl := 3
			_, already := s.res.H.confirmed.Load(id)
			if already {
				maxLvl = 1 // a confirmed witness for this assertion exists: do not spend time on more
			}
			ans = s.queryLevels(extra, s.oblTO, maxLvl, func(final bool) bool {
				c := s.extractCandidate(s.solver, id, kind, pos, msg)
				ok := s.concreteConfirms(c)
				if ok || final {
					staged = c
				}
				return ok
			})
			if ans == "unknown" && s.solverRestarted() {
				s.res.Inconclusive = append(s.res.Inconclusive, fmt.Sprintf("%s: obligation %s at %s: solver timeout (hard)", s.res.H.Name, id, pos))
				break
			}
			if ans != "sat" && staged != nil && staged.EngineConfirmed {
				ans = "sat"
			}
			if s.r.mode == ModeReal && ans != "unsat" && !already && (staged == nil || !staged.EngineConfirmed) && !s.solver.dead {
				// tier R could neither prove the obligation nor confirm a model: search for a
				// counter-example with the integer inputs concretised (the nonlinear terms become
				// linear); only concretely confirmed models are used, so this cannot create alarms
				s.endQuery()
				if c := s.concretiseSearch(extra, id, kind, pos, msg); c != nil {
					staged = c
					ans = "sat"
					s.res.H.confirmed.Store(id, true)
				}
				s.solver.Send("(push 1)\n")
			}
			if staged != nil && staged.EngineConfirmed {
				s.res.H.confirmed.Store(id, true)
			}
			if already && ans != "unsat" && (staged == nil || !staged.EngineConfirmed) {
				s.endQuery()
				break
			}
			msolver = s.solver
			done = s.endQuery
		}
		if ans == "unsat" {
			done()
			if !violated {
				st.Discharged++
			}
			break
		}
		if ans != "sat" {
			done()
			s.res.Inconclusive = append(s.res.Inconclusive, fmt.Sprintf("%s: obligation %s at %s: solver answered %s", s.res.H.Name, id, pos, firstLine(ans)))
			break
		}
		violated = true
		cand := staged
		if cand == nil {
			cand = s.extractCandidate(msolver, id, kind, pos, msg)
		}
		done()
		if st.Sample == "" {
			st.Sample = fmt.Sprint(cand.ModelSummary())
		}
		k := matchKnown(s.known, cand)
		cand.Known = k
		s.res.Candidates = append(s.res.Candidates, cand)
		if k == nil {
			break // a new violation: one witness is enough
		}
		// block this known class and look for a different violation
		b := s.classBlocker(k)
		if b == "" {
			break
		}
		blockers = append(blockers, b)
	}
	if cond.IsFalse() {
		return false
	}
	// pc is satisfiable; if the obligation was discharged then pc ∧ cond is satisfiable too
	if violated && !s.Feasible(cond) {
		return false
	}
	s.AssertPC(cond)
	return true
}

func firstLine(s string) string {
	if i := strings.Index(s, "\n"); i >= 0 {
		return s[:i]
	}
	return s
}

func (s *Session) classBlocker(k *Finding) string {
	var lits []string
	for name, want := range k.Class {
		var ct *Term
		for _, c := range s.ex.classes {
			if c.Name == name {
				ct = c.T
			}
		}
		if ct == nil {
			return ""
		}
		n := s.r.Ref(ct)
		if d := s.r.Take(); d != "" {
			// definitions must live outside the push scope
			s.send(d)
		}
		if want {
			lits = append(lits, n)
		} else {
			lits = append(lits, "(not "+n+")")
		}
	}
	if len(lits) == 0 {
		return "(assert false)\n"
	}
	return "(assert (not (and " + strings.Join(lits, " ") + ")))\n"
}

func (s *Session) extractCandidate(sv *Solver, id, kind, pos, msg string) *Candidate {
	c := &Candidate{Property: s.res.H.Property, Harness: s.res.H.Name, Pkg: s.res.H.Pkg, OblID: id, Kind: kind, Pos: pos, Msg: msg,
		Model: map[string]ModelVal{}, Choices: map[string]int{}, Classes: map[string]bool{}, Mode: s.r.mode}
	for k, v := range s.choices {
		c.Choices[k] = v
	}
	c.PathTrace = append([]int{}, s.ex.ctl.trace...)
	c.Explicit = append([]int{}, s.ex.explicit...)
	c.ChoiceSeq = append([]int{}, s.ex.choiceSeq...)
	var names []string
	byName := map[string]Nondet{}
	for _, nd := range s.ex.nondets {
		if n, ok := s.r.emitted[nd.T.ID]; ok {
			names = append(names, n)
			byName[n] = nd
		}
	}
	vals := sv.GetValues(names)
	for n, raw := range vals {
		nd := byName[n]
		mv, ok := parseModelValue(raw, nd.Sort, s.r.mode)
		if ok {
			c.Model[nd.Name] = mv
		} else {
			c.Model[nd.Name] = ModelVal{Sort: nd.Sort, Raw: raw}
		}
	}
	// classifier predicates
	for _, cp := range s.ex.classes {
		n, ok := s.r.emitted[cp.T.ID]
		if !ok {
			if cp.T.IsConst() {
				c.Classes[cp.Name] = cp.T.IsTrue()
			}
			continue
		}
		v := sv.GetValues([]string{n})
		c.Classes[cp.Name] = strings.TrimSpace(v[n]) == "true"
	}
	return c
}

func (c *Candidate) ModelSummary() map[string]interface{} {
	out := map[string]interface{}{}
	for k, v := range c.Model {
		switch v.Sort.Kind {
		case KBool:
			out[k] = v.U == 1
		case KFloat:
			out[k] = fmt.Sprint(v.F)
		default:
			if v.Sort.Signed {
				out[k] = sext(v.U, v.Sort.Width)
			} else {
				out[k] = v.U
			}
		}
	}
	for k, v := range c.Choices {
		out["choice:"+k] = v
	}
	return out
}

// portfolioSolve poses the current script + extra to all installed solvers in parallel
// (fresh processes); the first definite answer wins.  Returns the winning solver (for model
// extraction) and a cleanup function.
func (s *Session) portfolioSolve(extra string) (string, *Solver, func()) {
	script := s.script.String() + s.r.AxiomText(0, 3) + extra
	kinds := []SolverKind{SolverZ3New, SolverCVC5, SolverZ3}
	if s.r.mode == ModeReal {
		kinds = []SolverKind{SolverZ3New, SolverZ3}
	}
	type out struct {
		ans string
		sv  *Solver
	}
	ch := make(chan out, len(kinds))
	var procs []*Solver
	for _, k := range kinds {
		sv, err := StartSolverTO(k, s.oblTO)
		if err != nil {
			continue
		}
		sv.noRestart = true
		procs = append(procs, sv)
		go func(sv *Solver) {
			text := script
			if sv.kind.Name == SolverCVC5.Name && !strings.HasPrefix(text, "(set-logic") {
				text = "(set-logic ALL)\n" + text
			}
			sv.Send(text)
			ch <- out{sv.CheckSat(s.oblTO), sv}
		}(sv)
	}
	t0 := time.Now()
	res := "unknown"
	var winner *Solver
	for range procs {
		o := <-ch
		s.res.Queries++
		if strings.HasPrefix(o.ans, "error") && res == "unknown" {
			res = o.ans
		}
		if o.ans == "unsat" || o.ans == "sat" {
			res, winner = o.ans, o.sv
			break
		}
	}
	s.res.SolverTime += time.Since(t0)
	if winner != nil {
		s.res.Winners = append(s.res.Winners, winner.kind.Name)
	}
	cleanup := func() {
		for _, p := range procs {
			p.Close()
		}
	}
	return res, winner, cleanup
}

func sortedKeys(m map[string]bool) []string {
	var ks []string
	for k := range m {
		ks = append(ks, k)
	}
	sort.Strings(ks)
	return ks
}

// concreteConfirms re-executes the harness with the model's values (exact IEEE / wrap-around
// semantics by constant folding) and reports whether the same obligation is violated.
func (s *Session) concreteConfirms(c *Candidate) bool {
	if s.ex.ld == nil {
		return false
	}
	ok, out := concreteRun(s.ex.ld, s.res.H, c)
	c.EngineConfirmed = ok
	c.EngineOut = out
	return ok
}

// concretiseSearch: counter-example search by concretising the integer inputs (see Obligation).
func (s *Session) concretiseSearch(extra, id, kind, pos, msg string) *Candidate {
	var ints []Nondet
	for _, nd := range s.ex.nondets {
		if nd.Sort.Kind == KInt {
			if _, ok := s.r.emitted[nd.T.ID]; ok {
				ints = append(ints, nd)
			}
		}
	}
	if len(ints) == 0 {
		return nil
	}
	blockers := ""
	for round := 0; round < 8; round++ {
		s.solver.Send("(push 1)\n" + extra + blockers + s.r.AxiomText(0, 1))
		s.res.Queries++
		a := s.solver.CheckSat(5 * time.Second)
		if a != "sat" {
			if !s.solver.dead {
				s.solver.Send("(pop 1)\n")
			}
			return nil
		}
		var names []string
		for _, nd := range ints {
			names = append(names, s.r.emitted[nd.T.ID])
		}
		vals := s.solver.GetValues(names)
		s.solver.Send("(pop 1)\n")
		var eqs []string
		for _, n := range names {
			if v, ok := vals[n]; ok {
				eqs = append(eqs, "(= "+n+" "+v+")")
			}
		}
		if len(eqs) == 0 {
			return nil
		}
		s.solver.Send("(push 1)\n" + extra + s.r.AxiomText(0, 3) + "(assert (and " + strings.Join(eqs, " ") + "))\n")
		s.res.Queries++
		a = s.solver.CheckSat(15 * time.Second)
		if a == "sat" {
			c := s.extractCandidate(s.solver, id, kind, pos, msg)
			if s.concreteConfirms(c) {
				s.solver.Send("(pop 1)\n")
				return c
			}
		}
		if s.solver.dead {
			return nil
		}
		s.solver.Send("(pop 1)\n")
		blockers += "(assert (not (and " + strings.Join(eqs, " ") + ")))\n"
	}
	return nil
}
