package main

// Generator for the C17 (data-race freedom) harnesses.  For every listed exported type the
// method set is read from /repo's CURRENT type information (go/packages), so methods added or
// renamed in the code are picked up; for every unordered pair of exported methods (including a
// method with itself) a two-thread harness is generated that builds one shared instance with the
// real constructor and calls the two methods concurrently with symbolic arguments.  The harnesses
// live in a new overlay package (public API only).

import (
	"fmt"
	"go/types"
	"os"
	"path/filepath"
	"sort"
	"strings"

	"golang.org/x/tools/go/packages"
)

type raceSubject struct {
	Name  string   // harness name component
	Pkg   string   // import path suffix of the type's package
	Type  string   // type name (pointer receiver assumed)
	Setup []string // Go statements building the shared objects; must define `x`
	Extra []string // additional receivers: "<expr>|<import suffix>|<Type>" sharing state with x
	Warm  string   // optional warm-up statement executed in setup
	Skip  map[string]bool
}

var raceSubjects = []raceSubject{
	{Name: "AIMD", Pkg: "limit", Type: "AIMDLimit", Setup: []string{`x := limit.NewAIMDLimit("x", 10, 0.9, 1, nil)`}},
	{Name: "Vegas", Pkg: "limit", Type: "VegasLimit", Setup: []string{`x := limit.NewDefaultVegasLimitWithLimit("x", 10, nil, nil)`, `limit.VerifSymbolicVegas(x)`}},
	{Name: "Gradient", Pkg: "limit", Type: "GradientLimit", Setup: []string{`x := limit.NewGradientLimitWithRegistry("x", 10, 1, 100, 0.2, nil, 2.0, -1, nil, nil)`, `limit.VerifSymbolicGradient(x)`}},
	{Name: "Gradient2", Pkg: "limit", Type: "Gradient2Limit", Setup: []string{`x := limit.NewDefaultGradient2Limit("x", nil, nil)`}},
	{Name: "Settable", Pkg: "limit", Type: "SettableLimit", Setup: []string{`x := limit.NewSettableLimit("x", 10, nil)`}},
	{Name: "Fixed", Pkg: "limit", Type: "FixedLimit", Setup: []string{`x := limit.NewFixedLimit("x", 10, nil)`}},
	{Name: "Windowed", Pkg: "limit", Type: "WindowedLimit", Setup: []string{`x := limit.NewDefaultWindowedLimit("x", limit.NewAIMDLimit("d", 10, 0.9, 1, nil), nil)`, `limit.VerifSymbolicWindowed(x)`}},
	{Name: "Traced", Pkg: "limit", Type: "TracedLimit", Setup: []string{`x := limit.NewTracedLimit(limit.NewAIMDLimit("d", 10, 0.9, 1, nil), limit.NoopLimitLogger{})`}},
	{Name: "Simple", Pkg: "strategy", Type: "SimpleStrategy", Setup: []string{`x := strategy.NewSimpleStrategy(2)`}},
	{Name: "Precise", Pkg: "strategy", Type: "PreciseStrategy", Setup: []string{`x := strategy.NewPreciseStrategy(2)`}},
	{Name: "LookupPartition", Pkg: "strategy", Type: "LookupPartition", Setup: []string{`x := strategy.NewLookupPartitionWithMetricRegistry("a", 0.5, 2, core.EmptyMetricRegistryInstance)`}},
	{Name: "LookupStrategy", Pkg: "strategy", Type: "LookupPartitionStrategy", Setup: []string{
		`pa := strategy.NewLookupPartitionWithMetricRegistry("a", 0.5, 2, core.EmptyMetricRegistryInstance)`,
		`x, _ := strategy.NewLookupPartitionStrategyWithMetricRegistry(map[string]*strategy.LookupPartition{"a": pa}, nil, 2, core.EmptyMetricRegistryInstance)`},
		Extra: []string{"pa|strategy|LookupPartition"}},
	{Name: "PredicatePartition", Pkg: "strategy", Type: "PredicatePartition", Setup: []string{`x := strategy.NewPredicatePartitionWithMetricRegistry("a", 0.5, func(ctx context.Context) bool { return true }, core.EmptyMetricRegistryInstance)`}},
	{Name: "PredicateStrategy", Pkg: "strategy", Type: "PredicatePartitionStrategy", Setup: []string{
		`pa := strategy.NewPredicatePartitionWithMetricRegistry("a", 0.5, func(ctx context.Context) bool { return true }, core.EmptyMetricRegistryInstance)`,
		`x, _ := strategy.NewPredicatePartitionStrategyWithMetricRegistry([]*strategy.PredicatePartition{pa}, 2, core.EmptyMetricRegistryInstance)`},
		Extra: []string{"pa|strategy|PredicatePartition"}},
	{Name: "DefaultLimiter", Pkg: "limiter", Type: "DefaultLimiter", Setup: []string{
		`x, _ := limiter.NewDefaultLimiter(limit.NewAIMDLimit("d", 10, 0.9, 1, nil), 1, 1, 0, 10, strategy.NewSimpleStrategy(10), limit.NoopLimitLogger{}, core.EmptyMetricRegistryInstance)`,
		`limiter.VerifSymbolicState(x)`,
		`l1, _ := x.Acquire(context.Background())`,
		`l2, _ := x.Acquire(context.Background())`},
		Extra: []string{"l1.(*limiter.DefaultListener)|limiter|DefaultListener", "l2.(*limiter.DefaultListener)|limiter|DefaultListener"}},
	{Name: "Minimum", Pkg: "measurements", Type: "MinimumMeasurement", Setup: []string{`x := &measurements.MinimumMeasurement{}`}},
	{Name: "Single", Pkg: "measurements", Type: "SingleMeasurement", Setup: []string{`x := &measurements.SingleMeasurement{}`}},
	{Name: "ExpAvg", Pkg: "measurements", Type: "ExponentialAverageMeasurement", Setup: []string{`x := measurements.NewExponentialAverageMeasurement(100, 10)`}},
	{Name: "MovingAverage", Pkg: "measurements", Type: "SimpleExponentialMovingAverage", Setup: []string{`x, _ := measurements.NewSimpleExponentialMovingAverage(0.5)`}},
	{Name: "Variance", Pkg: "measurements", Type: "SimpleMovingVariance", Setup: []string{`x, _ := measurements.NewSimpleMovingVariance(0.5, 0.5)`}},
	{Name: "Percentile", Pkg: "measurements", Type: "WindowlessMovingPercentile", Setup: []string{`x, _ := measurements.NewWindowlessMovingPercentile(0.9, 0.01, 0.5, 0.5)`}},
	{Name: "GoMetricsRegistry", Pkg: "metric_registry/gometrics", Type: "MetricRegistry", Setup: []string{
		`x, _ := gometrics.NewGoMetricsMetricRegistry(gm.NewRegistry(), "", "p.", time.Second)`},
		Skip: map[string]bool{"Stop": true}},
	{Name: "QueueLimiter", Pkg: "limiter", Type: "QueueBlockingLimiter", Setup: []string{
		`inner, _ := limiter.NewDefaultLimiter(limit.NewFixedLimit("f", 1, nil), 1000000000, 1000000000, 1000000000, 100, strategy.NewPreciseStrategy(1), limit.NoopLimitLogger{}, core.EmptyMetricRegistryInstance)`,
		`x := limiter.NewQueueBlockingLimiterFromConfig(inner, limiter.QueueLimiterConfig{Ordering: limiter.OrderingFIFO, MaxBacklogSize: 10, MaxBacklogTimeout: time.Hour})`,
		`l1, _ := x.Acquire(context.Background())`},
		Extra: []string{"l1.(*limiter.QueueBlockingListener)|limiter|QueueBlockingListener"}},
	{Name: "BlockingLimiter", Pkg: "limiter", Type: "BlockingLimiter", Setup: []string{
		`inner, _ := limiter.NewDefaultLimiter(limit.NewFixedLimit("f", 1, nil), 1000000000, 1000000000, 1000000000, 100, strategy.NewPreciseStrategy(1), limit.NoopLimitLogger{}, core.EmptyMetricRegistryInstance)`,
		`x := limiter.NewBlockingLimiter(inner, 0, nil)`,
		`l1, _ := x.Acquire(context.Background())`},
		Extra: []string{"l1.(*limiter.DelegateListener)|limiter|DelegateListener"}},
	{Name: "DatadogRegistry", Pkg: "metric_registry/datadog", Type: "MetricRegistry", Setup: []string{
		`x, _ := datadog.NewMetricRegistryWithClient(&dogstatsd.Client{}, "p.", time.Second)`},
		Skip: map[string]bool{"Stop": true}},
}

// argExpr synthesises an argument expression for a parameter type; ok=false: not synthesisable.
func argExpr(t types.Type, name string, variadic bool) (string, bool) {
	if variadic {
		return "", true // no variadic arguments
	}
	switch ts := t.String(); ts {
	case "int":
		if strings.HasSuffix(name, ".idx") {
			return "0", true // partition index: symbolic slice indices of pointer slices are not modelled
		}
		return fmt.Sprintf("verif.Int(%q)", name), true
	case "int64":
		return fmt.Sprintf("verif.Int64(%q)", name), true
	case "int32":
		return fmt.Sprintf("verif.Int32(%q)", name), true
	case "bool":
		return fmt.Sprintf("verif.Bool(%q)", name), true
	case "float64":
		return "2.5", true
	case "string":
		return `"a"`, true
	case "context.Context":
		return "context.Background()", true
	case "func(value float64) float64":
		return "func(v float64) float64 { return v }", true
	case modPath + "/core.LimitChangeListener":
		return "func(int) {}", true
	case modPath + "/core.MetricSupplier":
		return "func() (float64, bool) { return 1, true }", true
	case "*" + modPath + "/strategy.LookupPartition":
		return `strategy.NewLookupPartitionWithMetricRegistry("n", 0.1, 1, core.EmptyMetricRegistryInstance)`, true
	case "*" + modPath + "/strategy.PredicatePartition":
		return `strategy.NewPredicatePartitionWithMetricRegistry("n", 0.1, func(ctx context.Context) bool { return false }, core.EmptyMetricRegistryInstance)`, true
	}
	return "", false
}

type raceCall struct {
	Label string // Recv.Method
	Code  string
}

func genC17(cfg *Config, overlay map[string][]byte, quick bool) (int, []string, error) {
	modfile := filepath.Join(cfg.Tmp, "go.mod")
	pcfg := &packages.Config{
		Mode:       packages.NeedName | packages.NeedTypes | packages.NeedImports | packages.NeedDeps | packages.NeedFiles | packages.NeedCompiledGoFiles,
		Dir:        cfg.Repo,
		BuildFlags: []string{"-modfile=" + modfile},
		Env:        goEnv(cfg),
	}
	need := map[string]bool{}
	for _, s := range raceSubjects {
		need[s.Pkg] = true
		for _, e := range s.Extra {
			need[strings.Split(e, "|")[1]] = true
		}
	}
	var pats []string
	for p := range need {
		pats = append(pats, "./"+p)
	}
	sort.Strings(pats)
	pkgs, err := packages.Load(pcfg, pats...)
	if err != nil {
		return 0, nil, err
	}
	byPath := map[string]*packages.Package{}
	for _, p := range pkgs {
		byPath[strings.TrimPrefix(p.PkgPath, modPath+"/")] = p
		for _, e := range p.Errors {
			return 0, nil, fmt.Errorf("load %s: %v", p.PkgPath, e)
		}
	}
	methodsOf := func(pkg, typ, recv string, skip map[string]bool) ([]raceCall, []string) {
		var calls []raceCall
		var skipped []string
		p := byPath[pkg]
		if p == nil {
			return nil, []string{pkg + "." + typ + ": package not loaded"}
		}
		obj := p.Types.Scope().Lookup(typ)
		if obj == nil {
			return nil, []string{pkg + "." + typ + ": type not found"}
		}
		ms := types.NewMethodSet(types.NewPointer(obj.Type()))
		for i := 0; i < ms.Len(); i++ {
			fn := ms.At(i).Obj().(*types.Func)
			if !fn.Exported() || skip[fn.Name()] {
				continue
			}
			sig := fn.Type().(*types.Signature)
			var args []string
			ok := true
			for j := 0; j < sig.Params().Len(); j++ {
				a, good := argExpr(sig.Params().At(j).Type(), fmt.Sprintf("%s.%s", fn.Name(), sig.Params().At(j).Name()), sig.Variadic() && j == sig.Params().Len()-1)
				if !good {
					ok = false
					break
				}
				if a != "" {
					args = append(args, a)
				}
			}
			if !ok {
				skipped = append(skipped, fmt.Sprintf("%s.%s.%s (argument type not synthesised)", pkg, typ, fn.Name()))
				continue
			}
			call := fmt.Sprintf("%s.%s(%s)", recv, fn.Name(), strings.Join(args, ", "))
			calls = append(calls, raceCall{Label: typ + "." + fn.Name(), Code: call})
		}
		return calls, skipped
	}
	var sb strings.Builder
	sb.WriteString("//go:build verif\n\n// Code generated by gclverify (gen_c17.go) from /repo's current type information. DO NOT EDIT.\n\npackage zzverifc17\n\n")
	sb.WriteString("import (\n\t\"context\"\n\t\"time\"\n\n\tgm \"github.com/rcrowley/go-metrics\"\n\tdogstatsd \"github.com/DataDog/datadog-go/v5/statsd\"\n\n")
	for _, im := range []string{"core", "limit", "limiter", "measurements", "strategy", "metric_registry/gometrics", "metric_registry/datadog"} {
		fmt.Fprintf(&sb, "\t%q\n", modPath+"/"+im)
	}
	fmt.Fprintf(&sb, "\tverif %q\n)\n\n", modPath+"/zz_verifrt")
	sb.WriteString("var _ = context.Background\nvar _ = time.Second\nvar _ core.Limit\nvar _ = limit.ProbeDisabled\nvar _ limiter.QueueOrdering\nvar _ measurements.MinimumMeasurement\nvar _ = strategy.PartitionTagName\nvar _ = gm.NewRegistry\nvar _ = gometrics.NewGoMetricsMetricRegistry\nvar _ = datadog.NewMetricRegistryWithClient\nvar _ dogstatsd.Client\n\n")
	var allSkipped []string
	n := 0
	for _, s := range raceSubjects {
		calls, sk := methodsOf(s.Pkg, s.Type, "x", s.Skip)
		allSkipped = append(allSkipped, sk...)
		for _, e := range s.Extra {
			parts := strings.Split(e, "|")
			c2, sk2 := methodsOf(parts[1], parts[2], "("+parts[0]+")", nil)
			for i := range c2 {
				c2[i].Label = parts[0] + ":" + c2[i].Label
			}
			calls = append(calls, c2...)
			allSkipped = append(allSkipped, sk2...)
		}
		for i := 0; i < len(calls); i++ {
			for j := i; j < len(calls); j++ {
				n++
				tier := "quick"
				fmt.Fprintf(&sb, "// VerifC17_%s_%d: %s  ||  %s\n//\n//verif:harness property=C17 theory=real tier=%s race=1 maxpasses=4 unwind=3 unwindcut=1 clock=free timeout=20 pair=%s\n", s.Name, n, calls[i].Label, calls[j].Label, tier,
					strings.ReplaceAll(calls[i].Label+"||"+calls[j].Label, " ", ""))
				fmt.Fprintf(&sb, "func VerifC17_%s_%d() {\n", s.Name, n)
				for _, st := range s.Setup {
					sb.WriteString("\t" + st + "\n")
				}
				sb.WriteString("\t_ = x\n")
				for _, e := range s.Extra {
					root := strings.Split(e, "|")[0]
					if k := strings.IndexAny(root, ".("); k >= 0 {
						root = root[:k]
					}
					sb.WriteString("\t_ = " + root + "\n")
				}
				fmt.Fprintf(&sb, "\tverif.Spawn(\"t1\", func() { %s })\n", calls[i].Code)
				fmt.Fprintf(&sb, "\tverif.Spawn(\"t2\", func() { %s })\n", calls[j].Code)
				sb.WriteString("\tverif.Parallel()\n\tverif.Reach(\"end\")\n}\n\n")
			}
		}
	}
	overlay[filepath.Join(cfg.Repo, "zz_verifc17", "gen.go")] = []byte(sb.String())
	if d := os.Getenv("VERIF_DUMP_C17"); d != "" {
		os.WriteFile(d, []byte(sb.String()), 0644)
	}
	return n, allSkipped, nil
}
