package main

import (
	"crypto/sha1"
	"encoding/json"
	"flag"
	"fmt"
	"os"
	"path/filepath"
	"runtime"
	"sort"
	"strconv"
	"strings"
	"sync"
	"time"
)

func main() {
	if len(os.Args) < 2 {
		fmt.Fprintln(os.Stderr, "usage: gclverify check|list|selftest [flags]")
		os.Exit(2)
	}
	cmd := os.Args[1]
	fs := flag.NewFlagSet(cmd, flag.ExitOnError)
	prop := fs.String("property", "", "property id (C01..C20)")
	tier := fs.String("tier", os.Getenv("VERIF_TIER"), "quick|thorough")
	repo := fs.String("repo", envOr("VERIF_REPO", "/repo"), "repository root")
	verif := fs.String("verif", envOr("VERIF_DIR", "/verif"), "verif root")
	only := fs.String("harness", "", "run only this harness")
	jobs := fs.Int("j", 14, "parallel solver slots")
	verbose := fs.Bool("v", false, "verbose")
	noReplay := fs.Bool("no-native-replay", false, "skip native replay of candidates")
	dump := fs.String("dump-smt", "", "directory for solver transcripts")
	noEvidence := fs.Bool("no-evidence", false, "do not write the evidence file")
	fs.Parse(os.Args[2:])
	if *tier == "" {
		*tier = "quick"
	}
	seed, _ := strconv.ParseInt(os.Getenv("VERIF_SEED"), 10, 64)
	tmp, err := os.MkdirTemp(envOr("VERIF_TMP", ""), "gclverify-")
	if err != nil {
		fatal(err)
	}
	defer os.RemoveAll(tmp)
	cfg := &Config{Repo: *repo, Verif: *verif, Tmp: tmp, Tier: *tier, Seed: seed, Jobs: *jobs, Verbose: *verbose, OnlyH: *only, NoReplay: *noReplay, DumpSMT: *dump}
	verboseLog = *verbose
	repoRoot = strings.TrimRight(*repo, "/")
	switch cmd {
	case "list":
		hs, _, err := discoverHarnesses(cfg)
		if err != nil {
			fatal(err)
		}
		for _, h := range hs {
			fmt.Printf("%s %s %s/%s mode=%v conc=%v\n", h.Property, h.Tier, h.Pkg, h.Name, h.Mode, h.Conc)
		}
	case "check":
		// watchdog: a check that does not finish is reported as inconclusive with a goroutine dump
		limit := 40 * time.Minute
		if *tier == "thorough" {
			limit = 6 * time.Hour
		}
		go func() {
			time.Sleep(limit)
			fmt.Printf("INCONCLUSIVE property=%s watchdog: check exceeded %v\n", *prop, limit)
			buf := make([]byte, 1<<22)
			n := runtime.Stack(buf, true)
			os.WriteFile(fmt.Sprintf("/tmp/gclverify-hang-%s-%d.txt", *prop, os.Getpid()), buf[:n], 0644)
			os.Stderr.Write(buf[:n])
			os.RemoveAll(tmp)
			os.Exit(3)
		}()
		// memory watchdog: an exploration that blows up (e.g. a changed retry loop the bounds do not
		// catch) ends as INCONCLUSIVE instead of exhausting the machine
		go func() {
			var ms runtime.MemStats
			for {
				time.Sleep(2 * time.Second)
				runtime.ReadMemStats(&ms)
				if ms.Sys > 24<<30 {
					fmt.Printf("INCONCLUSIVE property=%s watchdog: engine memory exceeded 24 GiB (exploration blow-up)\n", *prop)
					os.RemoveAll(tmp)
					os.Exit(3)
				}
			}
		}()
		code := check(cfg, *prop, !*noEvidence)
		os.RemoveAll(tmp)
		os.Exit(code)
	default:
		fmt.Fprintln(os.Stderr, "unknown command")
		os.Exit(2)
	}
}

func envOr(k, d string) string {
	if v := os.Getenv(k); v != "" {
		return v
	}
	return d
}

func fatal(err error) {
	fmt.Fprintln(os.Stderr, "gclverify:", err)
	os.Exit(3)
}

func check(cfg *Config, prop string, writeEvidence bool) int {
	t0 := time.Now()
	all, overlay, err := discoverHarnesses(cfg)
	if err != nil {
		fatal(err)
	}
	known, err := loadFindings(cfg)
	if err != nil {
		fatal(err)
	}
	var genNotes []string
	if prop == "C17" {
		if _, err := prepareModfile(cfg); err != nil {
			fatal(err)
		}
		n, skipped, err := genC17(cfg, overlay, cfg.Tier != "thorough")
		if err != nil {
			fmt.Fprintln(os.Stderr, "INCONCLUSIVE: cannot generate the C17 harnesses from /repo's type information:", err)
			if writeEvidence {
				writeBrokenEvidence(cfg, prop, err.Error(), time.Since(t0))
			}
			return 3
		}
		src := overlay[filepath.Join(cfg.Repo, "zz_verifc17", "gen.go")]
		more, err := parseHarnessSource(filepath.Join(cfg.Repo, "zz_verifc17", "gen.go"), "zz_verifc17", src)
		if err != nil {
			fatal(err)
		}
		all = append(all, more...)
		genNotes = append(genNotes, fmt.Sprintf("%d method-pair harnesses generated from the current method sets", n))
		for _, sk := range skipped {
			genNotes = append(genNotes, "skipped: "+sk)
		}
		logf("  C17: %d method-pair harnesses generated; %d methods skipped\n", n, len(skipped))
	}
	var hs []*Harness
	dirSet := map[string]bool{"zz_verifrt": true}
	for _, h := range all {
		if h.Property != prop {
			continue
		}
		if cfg.OnlyH != "" && h.Name != cfg.OnlyH && !(strings.HasSuffix(cfg.OnlyH, "*") && strings.HasPrefix(h.Name, strings.TrimSuffix(cfg.OnlyH, "*"))) {
			continue
		}
		if h.Tier == "thorough" && cfg.Tier != "thorough" {
			continue
		}
		if h.Tier == "off" && cfg.OnlyH != h.Name && !strings.HasSuffix(cfg.OnlyH, "*") {
			continue
		}
		if v, ok := h.Opts["unwind_"+cfg.Tier]; ok {
			h.Unwind, _ = strconv.Atoi(v)
		}
		if v, ok := h.Opts["timeout_"+cfg.Tier]; ok {
			n, _ := strconv.Atoi(v)
			h.OblTO = time.Duration(n) * time.Second
		}
		hs = append(hs, h)
		dirSet[h.Pkg] = true
	}
	if len(hs) == 0 {
		fmt.Fprintf(os.Stderr, "no harness for property %s\n", prop)
		return 3
	}
	// seed permutes scheduling order only
	if cfg.Seed != 0 {
		r := cfg.Seed
		for i := len(hs) - 1; i > 0; i-- {
			r = r*6364136223846793005 + 1442695040888963407
			j := int(uint64(r)>>33) % (i + 1)
			hs[i], hs[j] = hs[j], hs[i]
		}
	}
	var dirs []string
	for d := range dirSet {
		dirs = append(dirs, d)
	}
	sort.Strings(dirs)
	tl := time.Now()
	ld, err := loadProgram(cfg, overlay, dirs)
	if err != nil {
		fmt.Fprintln(os.Stderr, "INCONCLUSIVE: cannot load/build /repo with harness overlay:", err)
		if writeEvidence {
			writeBrokenEvidence(cfg, prop, err.Error(), time.Since(t0))
		}
		return 3
	}
	loadTime := time.Since(tl)
	results := make([]*HarnessResult, len(hs))
	var wg sync.WaitGroup
	sem := make(chan struct{}, cfg.Jobs)
	var ldMu sync.Mutex
	_ = ldMu
	pathSlots = make(chan struct{}, cfg.Jobs)
	sem = make(chan struct{}, cfg.Jobs)
	for i, h := range hs {
		h.Workers = cfg.Jobs
		h.RunTier = cfg.Tier
		wg.Add(1)
		sem <- struct{}{}
		go func(i int, h *Harness) {
			defer wg.Done()
			defer func() { <-sem }()
			results[i] = runHarness(cfg, ld, h, known)
			r := results[i]
			logf("  harness %-40s paths=%d obligations=%d queries=%d wall=%.1fs errors=%d inconclusive=%d candidates=%d\n",
				h.Name, r.Paths, totalPosed(r), r.Queries, r.Wall.Seconds(), len(r.Errors), len(r.Inconclusive), len(r.Candidates))
		}(i, h)
	}
	wg.Wait()
	sort.Slice(results, func(i, j int) bool { return results[i].H.Name < results[j].H.Name })

	// replay and classify candidates
	rp := newReplayer(cfg, ld, all, overlay)
	defer rp.cleanup()
	violations := 0
	var violLines, knownLines, inconc []string
	knownPrinted := map[*Finding]bool{}
	seenNew := map[string]bool{}
	for _, r := range results {
		if r.H.Opts["claims"] == "none" {
			// nothing is claimed by this harness: solver errors after a hard time-out / restart are
			// recorded as undecided as well
			for _, e := range r.Errors {
				r.Undecided = append(r.Undecided, "engine error: "+e)
			}
			r.Errors = nil
		}
		for _, e := range r.Errors {
			inconc = append(inconc, "engine error: "+e)
		}
		if r.H.Opts["claims"] == "none" {
			// finding-only / bug-hunting-only harness: it keeps a known defect visible or searches for
			// counter-examples; obligations the solver left undecided are recorded, nothing is claimed
			r.Undecided = append(r.Undecided, r.Inconclusive...)
			r.Inconclusive = nil
		}
		inconc = append(inconc, r.Inconclusive...)
		for pos := range r.UnwindFail {
			inconc = append(inconc, fmt.Sprintf("%s: unwinding assertion failed at %s (bound %d)", r.H.Name, pos, r.H.Unwind))
		}
		// vacuity is judged per property below (harnesses may share a parametrised body)
		for _, c := range r.Candidates {
			if c.Known != nil {
				if !knownPrinted[c.Known] {
					knownPrinted[c.Known] = true
					knownLines = append(knownLines, fmt.Sprintf("KNOWN-FINDING: property=%s %s [harness=%s assertion=%s class=%v]", prop, c.Known.What, c.Harness, c.OblID, c.Known.Class))
				}
				continue
			}
			key := c.Harness + "|" + c.OblID + "|" + fmt.Sprint(c.Classes)
			if c.Kind == "race" {
				key = "race|" + fmt.Sprint(c.Classes) // one report per pair of racing source files
			}
			if seenNew[key] {
				continue
			}
			seenNew[key] = true
			rp.replay(r, c)
			switch c.Replay {
			case "confirmed":
				dir := writeReplayDir(cfg, c)
				violations++
				violLines = append(violLines, fmt.Sprintf("VIOLATION property=%s replay=%s", prop, dir))
				logf("  violation: harness=%s assertion=%s at %s %s model=%v classes=%v\n", c.Harness, c.OblID, c.Pos, c.Msg, c.ModelSummary(), c.Classes)
			default:
				inconc = append(inconc, fmt.Sprintf("%s: candidate counter-example for %s at %s did not replay (%s): model=%v", c.Harness, c.OblID, c.Pos, c.Replay, c.ModelSummary()))
			}
		}
	}
	// vacuity: every assertion id / reachability witness that appears in the harness code must have
	// been reached under a satisfiable path condition by at least one harness of this property
	reachedA, reachedR := map[string]bool{}, map[string]bool{}
	anyErr := false
	for _, r := range results {
		if len(r.Errors) > 0 {
			anyErr = true
		}
		for id, st := range r.Obls {
			if st.Reached > 0 {
				reachedA[id] = true
			}
		}
		for id, n := range r.Reaches {
			if n > 0 {
				reachedR[id] = true
			}
		}
	}
	if !anyErr {
		seenV := map[string]bool{}
		for _, r := range results {
			for _, id := range r.ExpectedIDs {
				if !reachedA[id] && !seenV["a"+id] {
					seenV["a"+id] = true
					inconc = append(inconc, fmt.Sprintf("%s: assertion %q never reached (vacuous harness)", r.H.Name, id))
				}
			}
			for _, id := range r.ExpectedReach {
				if !reachedR[id] && !seenV["r"+id] {
					seenV["r"+id] = true
					inconc = append(inconc, fmt.Sprintf("%s: reachability witness %q never reached (vacuous harness)", r.H.Name, id))
				}
			}
		}
	}
	wall := time.Since(t0)
	if writeEvidence {
		writeEvidenceFile(cfg, prop, results, violations, inconc, knownLines, wall, loadTime, rp, genNotes)
	}
	for _, l := range knownLines {
		fmt.Println(l)
	}
	for _, l := range violLines {
		fmt.Println(l)
	}
	for _, l := range inconc {
		fmt.Println("INCONCLUSIVE property=" + prop + " " + l)
	}
	fmt.Printf("SUMMARY property=%s tier=%s harnesses=%d paths=%d obligations=%d discharged=%d queries=%d violations=%d known=%d inconclusive=%d wall=%.1fs\n",
		prop, cfg.Tier, len(results), sumPaths(results), sumPosed(results), sumDischarged(results), sumQueries(results), violations, len(knownLines), len(inconc), wall.Seconds())
	if violations > 0 {
		return 1
	}
	if len(inconc) > 0 {
		return 3
	}
	return 0
}

func totalPosed(r *HarnessResult) int {
	n := 0
	for _, o := range r.Obls {
		n += o.Posed
	}
	return n
}
func sumPaths(rs []*HarnessResult) (n int) {
	for _, r := range rs {
		n += r.Paths
	}
	return
}
func sumPosed(rs []*HarnessResult) (n int) {
	for _, r := range rs {
		n += totalPosed(r)
	}
	return
}
func sumDischarged(rs []*HarnessResult) (n int) {
	for _, r := range rs {
		for _, o := range r.Obls {
			n += o.Discharged
		}
	}
	return
}
func sumQueries(rs []*HarnessResult) (n int) {
	for _, r := range rs {
		n += r.Queries
	}
	return
}

func writeReplayDir(cfg *Config, c *Candidate) string {
	b, _ := json.Marshal(c.ModelSummary())
	h := sha1.Sum(append([]byte(c.Harness+c.OblID), b...))
	dir := filepath.Join(cfg.Verif, "replays", fmt.Sprintf("%s-%x", c.Property, h[:5]))
	os.MkdirAll(dir, 0755)
	doc := map[string]interface{}{
		"property": c.Property, "harness": c.Harness, "package": c.Pkg, "assertion": c.OblID, "kind": c.Kind, "position": c.Pos, "message": c.Msg,
		"model": c.ModelSummary(), "classes": c.Classes, "path": c.PathTrace, "replay": c.Replay, "theory": c.Mode.String(),
	}
	if c.Conc != nil {
		doc["schedule"] = c.Conc.Order
	}
	jb, _ := json.MarshalIndent(doc, "", "  ")
	os.WriteFile(filepath.Join(dir, "model.json"), jb, 0644)
	os.WriteFile(filepath.Join(dir, "result.txt"), []byte(c.ReplayOut), 0644)
	if rv := replayVector(c); rv != nil {
		os.WriteFile(filepath.Join(dir, "replay_vector.json"), rv, 0644)
	}
	return dir
}

func writeBrokenEvidence(cfg *Config, prop, msg string, wall time.Duration) {
	ev := map[string]interface{}{
		"property_id": prop, "tier": cfg.Tier, "seed": cfg.Seed, "level": "model_checking", "wall_s": wall.Seconds(), "violations": 0,
		"coverage": map[string]interface{}{"evaluations": 0, "distinct_nontrivial": 0, "explanation": "BROKEN: " + msg},
	}
	b, _ := json.MarshalIndent(ev, "", " ")
	os.MkdirAll(filepath.Join(cfg.Verif, "evidence"), 0755)
	os.WriteFile(filepath.Join(cfg.Verif, "evidence", prop+".json"), b, 0644)
}

func writeEvidenceFile(cfg *Config, prop string, results []*HarnessResult, violations int, inconc, knownLines []string, wall, loadTime time.Duration, rp *replayer, genNotes []string) {
	funcs := map[string]bool{}
	stubs := map[string]bool{}
	var samples []interface{}
	posed, discharged, nontrivial, queries, paths := 0, 0, 0, 0, 0
	distinct := map[string]bool{}
	var perHarness []interface{}
	var solverTime time.Duration
	for _, r := range results {
		for f := range r.Funcs {
			if strings.Contains(f, modPath) && !strings.Contains(f, "zz_verif") && !strings.Contains(f, ".Verif") {
				funcs[strings.ReplaceAll(f, modPath+"/", "")] = true
			}
		}
		for s := range r.Stubs {
			if !strings.Contains(s, "zz_verifrt") {
				stubs[s] = true
			}
		}
		paths += r.Paths
		queries += r.Queries
		solverTime += r.SolverTime
		var obls []interface{}
		ids := []string{}
		for id := range r.Obls {
			ids = append(ids, id)
		}
		sort.Strings(ids)
		for _, id := range ids {
			o := r.Obls[id]
			posed += o.Posed
			discharged += o.Discharged
			if o.Nontrivial > 0 || o.PathDependent > 0 {
				// distinct by (harness, assertion id, source position)
				for p := range o.Pos {
					distinct[r.H.Name+"|"+id+"|"+p] = true
				}
			}
			nontrivial += o.Nontrivial
			obls = append(obls, map[string]interface{}{"id": id, "kind": o.Kind, "posed": o.Posed, "discharged_unsat": o.Discharged, "constant_true": o.Trivial,
				"symbolic": o.Nontrivial, "reached_on_paths": o.Reached, "solver_ms": int(o.SolverMs), "positions": sortedKeys(o.Pos), "counterexample_sample": o.Sample})
		}
		hd := map[string]interface{}{
			"harness": r.H.Pkg + "." + r.H.Name, "theory": r.H.Mode.String(), "paths_explored": r.Paths, "paths_pruned_by_assume": r.PathsPruned,
			"solver_queries": r.Queries, "solver_s": round2(r.SolverTime.Seconds()), "wall_s": round2(r.Wall.Seconds()),
			"bounds":      map[string]interface{}{"loop_unwind_per_site": r.H.Unwind, "obligation_timeout_s": r.H.OblTO.Seconds(), "max_paths": r.H.MaxPaths, "options": r.H.Opts},
			"obligations": obls, "reachability_witnesses": r.Reaches, "fp_operations_encoded": r.FpOps, "doc": r.H.Doc, "paths_cut_at_unwind_bound": r.UnwindCuts, "paths_blocked_forever": r.Blocked,
		}
		if r.H.Opts["claims"] == "none" {
			hd["claims"] = "none: bug-hunting / finding-only harness; obligations the solver did not decide (listed under undecided) are NOT claimed, only confirmed counter-examples are reported"
			hd["undecided"] = r.Undecided
		}
		if r.H.Conc {
			hd["thread_path_combinations"] = r.ConcCombos
			hd["combinations_pruned_without_solver"] = r.PrunedCombos
			hd["prefixes_pruned_by_relaxed_query"] = r.PrunedPrefixes
			hd["relaxed_prefix_queries"] = r.PartialQueries
			hd["combinations_with_a_consistent_schedule"] = r.FeasibleCombos
			hd["events_encoded"] = r.Events
		}
		if len(results) <= 40 || len(r.Candidates) > 0 || len(r.Inconclusive) > 0 || len(r.Undecided) > 0 {
			perHarness = append(perHarness, hd)
		} else {
			perHarness = append(perHarness, map[string]interface{}{"harness": r.H.Pkg + "." + r.H.Name, "pair": r.H.Opts["pair"], "thread_path_combinations": r.ConcCombos,
				"combinations_with_a_consistent_schedule": r.FeasibleCombos, "conflicting_access_pairs_checked": r.RacePairs, "solver_queries": r.Queries, "events_encoded": r.Events})
		}
		for _, s := range r.Samples {
			samples = append(samples, s)
		}
	}
	if len(samples) > 12 {
		samples = samples[:12]
	}
	if len(samples) == 0 {
		samples = append(samples, "no path completed")
	}
	fl := sortedKeys(funcs)
	sl := sortedKeys(stubs)
	ev := map[string]interface{}{
		"property_id": prop, "tier": cfg.Tier, "seed": cfg.Seed, "level": "model_checking", "wall_s": round2(wall.Seconds()), "violations": violations,
		"assumptions": []string{
			"go/ssa translation of the Go source; this engine's SSA instruction semantics (cross-checked by concrete re-execution of every counter-example and by the translator self-test)",
			"environment stubs listed in coverage.stubs (clock = arbitrary non-decreasing instants, rand = arbitrary value in range, fmt/log = no effect except calling String()/Error())",
			"SMT solvers z3 4.8.12 / z3 5.1.0 / cvc5 1.0; tier R uses the rounded-real abstraction of IEEE-754 double arithmetic (sound for unsat) with side conditions for division by zero",
			"bounds per harness are listed in coverage.harnesses[].bounds and in each harness doc string; anything outside them is not claimed",
		},
		"coverage": map[string]interface{}{
			"evaluations":         queries,
			"distinct_nontrivial": len(distinct),
			"rule": "one symbolic execution of the real SSA per control-flow path of each harness; an obligation is (assertion or implicit run-time check) x path, posed to the solver as pc AND NOT cond over all symbolic inputs; " +
				"distinct_nontrivial counts obligations distinct by (harness, assertion id, source position) that were reached under a satisfiable path condition and either still contained symbolic variables after simplification or were evaluated on a path selected by solver-checked symbolic decisions (obligations that are constant on the single decision-free path are not counted); evaluations = solver queries issued (feasibility + obligations)",
			"samples":                       samples,
			"states":                        maxInt(paths, 1),
			"transitions":                   maxInt(queries, 1),
			"traces_validated_against_impl": len(rp.log),
			"states_transitions_meaning":    "states = symbolic control-flow paths (for concurrent harnesses: final-phase paths; thread-path combinations are listed per harness) each denoting the set of all concrete states/inputs satisfying its path condition; transitions = solver queries deciding symbolic branch feasibility and obligations; traces_validated_against_impl = solver models re-executed concretely / natively",
			"obligations":                   posed,
			"discharged":                    discharged,
			"symbolic_obligations":          nontrivial,
			"paths":                         paths,
			"solver_time_s":                 round2(solverTime.Seconds()),
			"load_ssa_build_s":              round2(loadTime.Seconds()),
			"functions_encoded":             fl,
			"stubs":                         sl,
			"harnesses":                     perHarness,
			"inconclusive":                  inconc,
			"known_findings":                knownLines,
			"generated_harnesses":           genNotes,
			"replays":                       rp.log,
			"exhaustive":                    false,
			"explanation":                   "bounded symbolic model checking by SMT over the SSA of the real code, regenerated from /repo on this run; verdicts are the solver's over all values of the symbolic inputs within the stated bounds",
		},
	}
	b, _ := json.MarshalIndent(ev, "", " ")
	os.MkdirAll(filepath.Join(cfg.Verif, "evidence"), 0755)
	os.WriteFile(filepath.Join(cfg.Verif, "evidence", prop+".json"), b, 0644)
}

func maxInt(a, b int) int {
	if a > b {
		return a
	}
	return b
}

func round2(f float64) float64 { return float64(int(f*100+0.5)) / 100 }
