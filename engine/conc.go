package main

// Concurrent (event-order) mode.
//
// A concurrent harness runs its setup sequentially, registers threads with verif.Spawn and
// calls verif.Parallel().  At that point every thread is executed symbolically IN ISOLATION from a
// snapshot of the setup heap: a load from a location that some other thread writes creates a read
// event whose value is a fresh SMT variable; stores, lock operations, atomics, condition variables,
// channel operations create events.  The code after Parallel() is the "final" thread, ordered after
// every other event (join / quiescence).  At the end of the harness, for every combination of
// per-thread control paths one SMT query is posed in which the interleaving (an integer timestamp
// per event), all data values and all environment events are solver variables (Alglave-Kroening-
// Tautschnig partial-order encoding, DESIGN section 4 and appendix A).

import (
	"fmt"
	"go/types"
	"os"
	"sort"
	"strconv"
	"strings"
	"sync"
	"sync/atomic"
	"time"

	"golang.org/x/tools/go/ssa"
)

type Event struct {
	ID       int
	Thread   int
	Idx      int
	Kind     string // r w rmw lock unlock rlock runlock enq wake bcast close send recv park go begin end fire cancel mapr mapw
	Loc      string
	RV       *Term  // value read
	WV       *Term  // value written
	RVRef    string // reference-valued read: variable name of the selector
	Atomic   bool
	Pos      string
	Stack    string
	Ctxs     string // park events: cancellable contexts among the select cases
	Aux      string
	Peer     *Event // wake <-> enq, unlock <-> lock …
	Held     []string
	DepReads []*Event // write events: the read events of the same path whose value the written value depends on
	HasRef   bool     // reference-valued read whose value was fixed to the candidate RefID on this path
	RefID    int
	Init     bool // initialising write emitted when a thread-local object is published (ownership transfer): not a racing access
	Plain    bool // plain (non-atomic, non-sync) memory access: subject to the race analysis
	Cap      int  // channel capacity (send / park / selwake events)
}

type recAssert struct {
	ID   string
	Cond *Term
	Pos  string
	Kind string
	Msg  string
}

type ThreadPath struct {
	readVar  map[int]*Event // read variable (term id) -> the read event that introduced it
	Thread   int
	Events   []*Event
	PC       []*Term
	Asserts  []recAssert
	End      string // "done" | "blocked:<why>" | "cut"
	Trace    []int
	Children []int
	Classes  []classPred
	Reach    []string
}

type ThreadSpec struct {
	Name      string
	Fn        Value
	Args      []Value
	Parent    int      // spawning thread (0 = setup), event index of the go statement in the parent path
	EnvCancel string   // environment thread: cancels the named context at any moment, or never
	After     []string // SpawnAfter: first step only after these threads (and their goroutines) first blocked / finished
	AfterDone []string // SpawnAfterDone: first step only after these threads have returned
	Paths     []*ThreadPath
}

type refCand struct {
	Key string
	V   Value
	Typ types.Type
}

type ConcState struct {
	mode      string // "thread" | "final"
	curThread int
	threads   []*ThreadSpec // index 1..n (0 unused)
	cur       *ThreadPath
	// knowledge from earlier passes
	writers      map[string]map[int]bool // loc -> threads writing it
	cands        map[string][]refCand    // loc -> reference values written by threads
	newWrite     map[string]map[int]bool
	newCands     map[string][]refCand
	snap         *heapSnap
	evSeq        int
	allocSeq     map[string]int
	foreign      map[string]*Object
	final        *ThreadPath
	blockedV     map[string]*Term
	initVals     map[string]Value
	refIDs       map[string]int
	refVals      map[string]Value
	pubDone      map[*Object]bool
	heldLocks    []string
	goParent     map[int][2]int // child thread -> (parent thread, parent event idx)
	pathParentEv map[int]int
	timersByCh   map[*ChanV]*Event
	raceMode     bool
	snapIdx      map[*Object]int
	incomplete   bool
	readCache    map[string]Value
	refMu        sync.Mutex
	waitCnt      map[string]int               // Cond.Wait sites passed on the current path (retry-loop bound)
	mapAcc       map[string]map[int]bool      // shared map -> accessing thread -> it writes the map
	newMapKeys   map[int]map[string]newMapKey // keys inserted by threads into maps that exist at the fork
	pcMark       pcMarkT                      // path-condition mark at the start of the thread being explored
}

type newMapKey struct {
	K    Value
	Zero Value
}

type heapSnap struct {
	objs    []*Object
	vals    []Value
	shared  []bool
	maps    []*MapV
	mapE    []map[string]*mapEntry
	chans   []*ChanV
	chanS   []ChanV
	locks   map[string]lockState
	clock   *Term
	nTimers int
	nextObj int
	nondets int
	nowCnt  int
}

// ---------------------------------------------------------------------------
// snapshot / restore of the interpreter heap

func (ex *Exec) takeSnap() *heapSnap {
	s := &heapSnap{locks: map[string]lockState{}, clock: ex.clock, nTimers: len(ex.timers), nextObj: ex.nextObj, nondets: len(ex.nondets), nowCnt: ex.nowCnt}
	for _, o := range ex.allObjs {
		s.objs = append(s.objs, o)
		s.vals = append(s.vals, copyVal(o.V))
		s.shared = append(s.shared, o.Shared)
	}
	for _, m := range ex.allMaps {
		cp := map[string]*mapEntry{}
		for k, e := range m.Entries {
			cp[k] = &mapEntry{K: e.K, V: copyVal(e.V), Cell: e.Cell}
		}
		s.maps = append(s.maps, m)
		s.mapE = append(s.mapE, cp)
	}
	for _, c := range ex.allChans {
		s.chans = append(s.chans, c)
		cc := *c
		cc.Buf = append([]Value{}, c.Buf...)
		s.chanS = append(s.chanS, cc)
	}
	for k, l := range ex.locks {
		s.locks[k] = *l
	}
	return s
}

func (ex *Exec) restoreSnap(s *heapSnap) {
	for i, o := range s.objs {
		o.V = copyVal(s.vals[i])
		o.Shared = s.shared[i]
	}
	ex.allObjs = append(ex.allObjs[:0], s.objs...)
	for i, m := range s.maps {
		cp := map[string]*mapEntry{}
		for k, e := range s.mapE[i] {
			cp[k] = &mapEntry{K: e.K, V: copyVal(e.V), Cell: e.Cell}
		}
		m.Entries = cp
	}
	ex.allMaps = ex.allMaps[:len(s.maps)]
	for i, c := range s.chans {
		saved := s.chanS[i]
		c.Buf = append([]Value{}, saved.Buf...)
		c.Closed = saved.Closed
		c.Offered = saved.Offered
	}
	ex.allChans = ex.allChans[:len(s.chans)]
	ex.locks = map[string]*lockState{}
	for k, l := range s.locks {
		cp := l
		ex.locks[k] = &cp
	}
	ex.clock = s.clock
	ex.timers = ex.timers[:s.nTimers]
	ex.nextObj = s.nextObj
	ex.nondets = ex.nondets[:s.nondets]
	ex.nowCnt = s.nowCnt
}

// ---------------------------------------------------------------------------
// Spawn / Parallel

func (ex *Exec) spawn(name string, f *Closure) {
	if ex.conc == nil {
		ex.conc = &ConcState{mode: "setup", threads: []*ThreadSpec{nil}, writers: map[string]map[int]bool{}, cands: map[string][]refCand{},
			blockedV: map[string]*Term{}, refIDs: map[string]int{"nil": 0}, refVals: map[string]Value{}, goParent: map[int][2]int{}}
	}
	ex.conc.threads = append(ex.conc.threads, &ThreadSpec{Name: name, Fn: f})
}

func (c *ConcState) active() bool { return c != nil && (c.mode == "thread" || c.mode == "final") }

func (ex *Exec) objKey(o *Object) string {
	if o.Key != "" {
		return o.Key
	}
	return fmt.Sprintf("s%d", o.ID)
}

func (ex *Exec) locKey(p *Ptr) string {
	var sb strings.Builder
	sb.WriteString(ex.objKey(p.Obj))
	for _, i := range p.Path {
		fmt.Fprintf(&sb, ".%d", i)
	}
	return sb.String()
}

func (ex *Exec) runParallel() {
	c := ex.conc
	if c == nil || len(c.threads) <= 1 {
		panic(unsupported("Parallel() without Spawn"))
	}
	if ex.concreteMode {
		panic(unsupported("concrete replay of concurrent harness"))
	}
	// the entries of every map that exists at the fork become shared cells {present, value}
	if ex.h.Opts["maps"] != "local" {
		for _, m := range ex.allMaps {
			if m.Nil {
				continue
			}
			for _, k := range m.sortedKeys() {
				e := m.Entries[k]
				if e.Cell == nil {
					e.Cell = ex.newObject(&StructV{Fields: []Value{ex.ts.Bool(true), copyVal(e.V)}}, "mapcell", nil)
					e.Cell.Key = fmt.Sprintf("mapcell%d[%s]", m.ID, sanitize(k))
				}
			}
		}
	}
	// everything allocated so far is shared
	for _, o := range ex.allObjs {
		o.Shared = true
	}
	c.snap = ex.takeSnap()
	c.snapIdx = map[*Object]int{}
	for i, o := range c.snap.objs {
		c.snapIdx[o] = i
	}
	c.initVals = map[string]Value{}
	nUser := len(c.threads) - 1
	stableIncomplete := 0
	for pass := 0; pass < maxFixPasses; pass++ {
		c.newWrite = map[string]map[int]bool{}
		c.newCands = map[string][]refCand{}
		c.threads = c.threads[:nUser+1]
		c.goParent = map[int][2]int{}
		changed := false
		merge := func() {
			for loc, ws := range c.newWrite {
				if c.writers[loc] == nil {
					c.writers[loc] = map[int]bool{}
				}
				for w := range ws {
					if !c.writers[loc][w] {
						c.writers[loc][w] = true
						changed = true
					}
				}
			}
			for loc, cs := range c.newCands {
				for _, nc := range cs {
					found := false
					for _, oc := range c.cands[loc] {
						if oc.Key == nc.Key {
							found = true
						}
					}
					if !found {
						c.cands[loc] = append(c.cands[loc], nc)
						changed = true
					}
				}
			}
		}
		c.incomplete = false
		for t := 1; t < len(c.threads); t++ { // len grows when threads spawn goroutines
			ex.exploreThread(t)
			merge()
		}
		if ex.addAbsentCells() {
			changed = true
		}
		if c.incomplete && !changed {
			// the writer / candidate sets are stable, yet some paths still end at a read of a foreign
			// object's field that no thread ever writes: with stable sets another pass cannot make
			// them feasible, they are dropped (counted: stated bound, never a source of alarms)
			stableIncomplete++
			ex.sess.res.PassBoundHit++
		} else if c.incomplete {
			changed = true
		}
		if os.Getenv("VERIF_DEBUG_FIX") != "" {
			nc := 0
			for _, cs := range c.cands {
				nc += len(cs)
			}
			logf("    fix-point pass %d: changed=%v incomplete=%v locs-written=%d cands=%d\n", pass, changed, c.incomplete, len(c.writers), nc)
			for loc, cs := range c.newCands {
				for _, nc := range cs {
					logf("      newcand %s <- %s\n", loc, nc.Key)
				}
			}
		}
		if !changed {
			break
		}
		if mp := ex.h.Opts["maxpasses"]; mp != "" && fmt.Sprint(pass+1) == mp {
			// stated bound: reference-value chains alternating between threads deeper than this are
			// not explored (each thread performs one operation: deeper chains are causally impossible)
			ex.sess.res.PassBoundHit++
			break
		}
		if pass == maxFixPasses-1 {
			panic(unsupported("shared-location fix point did not converge"))
		}
	}
	ex.restoreSnap(c.snap)
	c.mode = "final"
	c.curThread = len(c.threads)
	c.cur = &ThreadPath{Thread: c.curThread}
	c.final = c.cur
	c.allocSeq = map[string]int{}
	c.foreign = map[string]*Object{}
	c.heldLocks = nil
}

func (ex *Exec) exploreThread(t int) {
	c := ex.conc
	spec := c.threads[t]
	spec.Paths = nil
	if spec.EnvCancel != "" {
		c.curThread = t
		c.mode = "thread"
		c.cur = &ThreadPath{Thread: t, End: "done"}
		c.heldLocks = nil
		ex.addEvent(&Event{Kind: "cancel", Loc: "ctx:" + spec.EnvCancel})
		spec.Paths = []*ThreadPath{c.cur, {Thread: t, End: "done"}}
		return
	}
	pending := [][]int{{}}
	explored := 0
	var seenSig map[string]bool
	savedCtl := ex.ctl
	savedPC := ex.sess.pcMark()
	c.pcMark = savedPC
	defer func() { ex.ctl = savedCtl }()
	for len(pending) > 0 {
		prefix := pending[len(pending)-1]
		pending = pending[:len(pending)-1]
		limit := 4000
		if v, err := strconv.Atoi(ex.h.Opts["threadpaths"]); err == nil && v > 0 {
			limit = v
		}
		ex.steps = 0
		if ex.h.Opts["race"] == "1" {
			explored++
			if explored > 600 {
				// stated bound of the race analysis: at most 600 control paths per thread are explored
				ex.sess.res.RacePathCaps++
				break
			}
			limit = 20000
		}
		if len(spec.Paths) > limit {
			if verboseLog {
				for i, p := range spec.Paths {
					if i%40 == 0 {
						var kinds []string
						for _, e := range p.Events {
							kinds = append(kinds, e.Kind+":"+e.Loc+"@"+e.Pos)
						}
						logf("    sample path %v end=%s events=%v\n", p.Trace, p.End, kinds)
					}
				}
			}
			panic(unsupported("too many paths in thread " + spec.Name))
		}
		ex.restoreSnap(c.snap)
		ex.sess.pcReset(savedPC)
		ex.ctl = &PathCtl{prefix: append([]int{}, prefix...), pending: &pending}
		c.mode = "thread"
		c.curThread = t
		c.cur = &ThreadPath{Thread: t, End: "done"}
		c.allocSeq = map[string]int{}
		c.foreign = map[string]*Object{}
		c.heldLocks = nil
		c.readCache = map[string]Value{}
		c.pubDone = map[*Object]bool{}
		c.waitCnt = map[string]int{}
		ex.forkCnt = map[ssa.Instruction]int{}
		ex.classes = nil
		ex.addEvent(&Event{Kind: "begin"})
		func() {
			nframes := len(ex.frames)
			depth := ex.depth
			defer func() {
				if r := recover(); r != nil {
					ex.frames = ex.frames[:nframes]
					ex.depth = depth
					switch e := r.(type) {
					case pathEnd:
						if strings.Contains(e.reason, "cut") {
							c.cur.End = "cut"
						} else if strings.Contains(e.reason, "assumption infeasible") || strings.Contains(e.reason, "no feasible") {
							c.cur.End = "infeasible"
						} else {
							c.cur.End = "ended:" + e.reason
						}
					case goBlocked:
						c.cur.End = "blocked:" + e.why
					default:
						panic(r)
					}
				}
			}()
			var largs []Value
			for _, a := range spec.Args {
				largs = append(largs, ex.localize(a))
			}
			ex.invoke(ex.localize(spec.Fn), largs, nil)
		}()
		if c.cur.End == "infeasible" {
			continue
		}
		if c.cur.End == "done" {
			ex.addEvent(&Event{Kind: "end"})
		}
		c.cur.Trace = append([]int{}, ex.ctl.trace...)
		c.cur.PC = ex.sess.pcSince(savedPC)
		c.cur.Classes = append([]classPred{}, ex.classes...)
		if ex.h.Opts["race"] == "1" {
			// race analysis: control paths with the same sequence of synchronisation and memory events
			// are equivalent; keep one representative (its data path condition is dropped: sound for
			// proving race freedom, a reported race is on a path whose data feasibility is unchecked)
			var sig strings.Builder
			for _, e := range c.cur.Events {
				sig.WriteString(e.Kind + ":" + e.Loc + ";")
			}
			sig.WriteString(c.cur.End)
			if seenSig == nil {
				seenSig = map[string]bool{}
			}
			if seenSig[sig.String()] {
				continue
			}
			seenSig[sig.String()] = true
			c.cur.PC = nil
			for _, e := range c.cur.Events {
				e.RV = nil // values are irrelevant for the schedule-only race query
				if e.Kind == "rmw" || e.Kind == "w" {
					// keep WV nil-safe: writes need no value either
				}
			}
		}
		spec.Paths = append(spec.Paths, c.cur)
	}
	ex.sess.pcReset(savedPC)
}

func (ex *Exec) addEvent(e *Event) *Event {
	c := ex.conc
	c.evSeq++
	e.ID = c.evSeq
	e.Thread = c.curThread
	e.Idx = len(c.cur.Events)
	e.Pos = ex.curPos()
	if ex.conc.raceMode {
		e.Stack = ex.stack()
	}
	e.Held = append([]string{}, c.heldLocks...)
	c.cur.Events = append(c.cur.Events, e)
	if len(c.cur.Events) > 20000 {
		panic(unsupported("a thread path with more than 20000 events (unbounded loop?)"))
	}
	return e
}

// ---------------------------------------------------------------------------
// memory accesses

func (ex *Exec) isSharedObj(o *Object) bool { return o != nil && o.Shared }

func (ex *Exec) foreignWriter(loc string) bool {
	ws := ex.conc.writers[loc]
	for w := range ws {
		if w != ex.conc.curThread {
			return true
		}
	}
	return false
}

func (ex *Exec) anyWriter(loc string) bool { return len(ex.conc.writers[loc]) > 0 }

func (ex *Exec) concLoad(p *Ptr) Value {
	c := ex.conc
	if !c.active() || p.Obj == nil || !ex.isSharedObj(p.Obj) || p.Sym != nil {
		return copyVal(ex.rawLoad(p))
	}
	cur := ex.rawLoad(p)
	return ex.sharedLoad(p, cur, false)
}

// sharedLoad reads a (possibly aggregate) value from a shared object leaf by leaf.
func (ex *Exec) sharedLoad(p *Ptr, cur Value, atomic bool) Value {
	switch v := cur.(type) {
	case *StructV:
		n := &StructV{Fields: make([]Value, len(v.Fields))}
		for i, f := range v.Fields {
			n.Fields[i] = ex.sharedLoad(p.child(i), f, atomic)
		}
		return n
	case *ArrayV:
		n := &ArrayV{Elems: make([]Value, len(v.Elems))}
		for i, f := range v.Elems {
			n.Elems[i] = ex.sharedLoad(p.child(i), f, atomic)
		}
		return n
	}
	loc := ex.locKey(p)
	c := ex.conc
	needEvent := ex.foreignWriter(loc) || (c.mode == "final" && ex.anyWriter(loc))
	if !needEvent && p.Obj.Foreign {
		// content of an object allocated by another thread whose writes are not known yet in this
		// pass of the fix point: abandon the path, another pass follows
		c.incomplete = true
		panic(pathEnd{"assumption infeasible (foreign object content unknown in this pass)"})
	}
	if !needEvent {
		return cur
	}
	// a location re-read inside one critical section is stable (race-free code: C17): reuse the value
	if len(c.heldLocks) > 0 && !atomic && c.mode == "thread" {
		if v, ok := c.readCache[loc]; ok {
			return v
		}
	}
	ex.noteInit(p, loc)
	if t, ok := cur.(*Term); ok {
		rv := ex.ts.FreshVar(fmt.Sprintf("rd.t%d.%s", c.curThread, sanitize(loc)), t.Sort)
		rdE := ex.addEvent(&Event{Kind: "r", Loc: loc, RV: rv, Atomic: atomic, Plain: !atomic})
		if c.cur.readVar == nil {
			c.cur.readVar = map[int]*Event{}
		}
		c.cur.readVar[rv.ID] = rdE
		if len(c.heldLocks) > 0 && !atomic {
			c.readCache[loc] = rv
		}
		return rv
	}
	// reference-valued location: selector over the candidate values
	cands := ex.refCandidates(loc, cur)
	if len(cands) == 0 {
		c.incomplete = true
		panic(pathEnd{"assumption infeasible (no candidate value known for a reference read in this pass)"})
	}
	if len(cands) == 1 {
		// still an event (ordering), but the value is known
		sel := ex.ts.FreshVar(fmt.Sprintf("rd.t%d.%s", c.curThread, sanitize(loc)), SInt(32, false))
		ex.addEvent(&Event{Kind: "r", Loc: loc, RV: sel, Atomic: atomic, Plain: !atomic, Aux: "ref", HasRef: true, RefID: ex.refID(cands[0])})
		ex.sess.AssertPC(ex.ts.IntCmp("eq", sel, ex.ts.Int(SInt(32, false), uint64(ex.refID(cands[0])))))
		v := ex.materialize(cands[0])
		if len(c.heldLocks) > 0 && !atomic {
			c.readCache[loc] = v
		}
		return v
	}
	sel := ex.ts.FreshVar(fmt.Sprintf("rd.t%d.%s", c.curThread, sanitize(loc)), SInt(32, false))
	rdEv := ex.addEvent(&Event{Kind: "r", Loc: loc, RV: sel, Atomic: atomic, Plain: !atomic, Aux: "ref"})
	k := ex.ctl.Choose(len(cands), func(int) bool { return true })
	rdEv.HasRef, rdEv.RefID = true, ex.refID(cands[k])
	ex.sess.AssertPC(ex.ts.IntCmp("eq", sel, ex.ts.Int(SInt(32, false), uint64(ex.refID(cands[k])))))
	v := ex.materialize(cands[k])
	if len(c.heldLocks) > 0 && !atomic {
		c.readCache[loc] = v
	}
	return v
}

// noteInit records the post-setup value of a shared location (the value a read sees when no
// thread has written it yet).
func (ex *Exec) noteInit(p *Ptr, loc string) {
	c := ex.conc
	if _, ok := c.initVals[loc]; ok {
		return
	}
	idx, ok := c.snapIdx[p.Obj]
	if !ok {
		return
	}
	v := c.snap.vals[idx]
	for _, i := range p.Path {
		switch x := v.(type) {
		case *StructV:
			v = x.Fields[i]
		case *ArrayV:
			if i >= len(x.Elems) {
				return
			}
			v = x.Elems[i]
		default:
			return
		}
	}
	c.initVals[loc] = v
}

func sanitize(s string) string {
	return strings.NewReplacer(":", "_", "#", "_", "/", "_", "@", "_", " ", "_", "(", "_", ")", "_", "*", "_", "$", "_").Replace(s)
}

// refKey gives a stable identity to a reference value.
func (ex *Exec) refKey(v Value) string {
	switch x := v.(type) {
	case nil:
		return "nil"
	case *Ptr:
		if x.Obj == nil {
			return "nil"
		}
		return "ptr:" + ex.locKey(x)
	case *SliceV:
		if x.Arr == nil {
			return "nilslice"
		}
		return fmt.Sprintf("slice:%s:%d:%d:%d", ex.objKey(x.Arr), x.Off, x.Len, x.Cap)
	case *IfaceV:
		if x.T == nil && x.V == nil {
			return "niliface"
		}
		ts := "?"
		if x.T != nil {
			ts = x.T.String()
		}
		return "iface:" + ts + ":" + ex.refKey(x.V)
	case *Closure:
		if x.Fn == nil && x.B == nil && x.Intr == "" {
			return "nilfunc"
		}
		var bk []string
		for _, b := range x.Bind {
			bk = append(bk, ex.refKey(b))
		}
		name := x.Intr
		if x.Fn != nil {
			name = x.Fn.String()
		}
		return "func:" + name + "[" + strings.Join(bk, ",") + "]"
	case *MapV:
		if x.Nil {
			return "nilmap"
		}
		return fmt.Sprintf("map:%d", x.ID)
	case *ChanV:
		if x.Nil {
			return "nilchan"
		}
		return fmt.Sprintf("chan:%d", x.ID)
	case string:
		return "str:" + x
	case *Term:
		return "term:" + x.String()
	case *StructV:
		var parts []string
		for _, f := range x.Fields {
			parts = append(parts, ex.refKey(f))
		}
		return "{" + strings.Join(parts, ",") + "}"
	case *CtxV:
		k := "ctx:" + x.Name
		if x.HasKV {
			k += "{" + ex.refKey(x.Key) + "=" + ex.refKey(x.Val) + "}"
		}
		if x.Cancel != nil {
			k += "!" + x.Cancel.String()
		}
		if x.Parent != nil {
			k += "<" + ex.refKey(x.Parent)
		}
		return k
	case *OpaqueV:
		return fmt.Sprintf("opaque:%d", x.ID)
	}
	return fmt.Sprintf("?%T", v)
}

func (ex *Exec) refID(rc refCand) int {
	c := ex.conc
	c.refMu.Lock()
	defer c.refMu.Unlock()
	if id, ok := c.refIDs[rc.Key]; ok {
		return id
	}
	id := len(c.refIDs) + 1
	c.refIDs[rc.Key] = id
	return id
}

func (ex *Exec) refCandidates(loc string, cur Value) []refCand {
	c := ex.conc
	init, ok := c.initVals[loc]
	var out []refCand
	if ok {
		out = append(out, refCand{Key: ex.refKey(init), V: init})
	}
	for _, rc := range c.cands[loc] {
		dup := false
		for _, o := range out {
			if o.Key == rc.Key {
				dup = true
			}
		}
		if !dup {
			out = append(out, rc)
		}
	}
	return out
}

// materialize turns a candidate reference into a value usable by the current thread: objects
// allocated by other threads are represented by placeholder objects of the same identity.
func (ex *Exec) materialize(rc refCand) Value {
	return ex.localize(rc.V)
}

func (ex *Exec) localize(v Value) Value {
	switch x := v.(type) {
	case *Ptr:
		if x.Obj == nil {
			return x
		}
		return &Ptr{Obj: ex.localObj(x.Obj), Path: x.Path}
	case *SliceV:
		if x.Arr == nil {
			return x
		}
		return &SliceV{Arr: ex.localObj(x.Arr), Off: x.Off, Len: x.Len, Cap: x.Cap}
	case *IfaceV:
		if x.V == nil {
			return x
		}
		return &IfaceV{T: x.T, V: ex.localize(x.V)}
	case *Closure:
		if len(x.Bind) == 0 {
			return x
		}
		nb := make([]Value, len(x.Bind))
		for i, b := range x.Bind {
			nb[i] = ex.localize(b)
		}
		return &Closure{Fn: x.Fn, Bind: nb, B: x.B, Intr: x.Intr}
	case *StructV:
		n := &StructV{Fields: make([]Value, len(x.Fields))}
		for i, f := range x.Fields {
			n.Fields[i] = ex.localize(f)
		}
		return n
	}
	return v
}

// localObj maps an object of another thread's run to the placeholder of this run.
func (ex *Exec) localObj(o *Object) *Object {
	if o.Key == "" {
		return o // setup object: shared by identity
	}
	c := ex.conc
	if o.OwnerRun == c.cur {
		return o
	}
	if p, ok := c.foreign[o.Key]; ok {
		return p
	}
	var v Value
	if o.Typ != nil {
		v = ex.zero(o.Typ)
	} else {
		v = ex.shapeOf(o.V)
	}
	p := &Object{ID: o.ID, V: v, Label: o.Label, Typ: o.Typ, Shared: true, Key: o.Key, OwnerRun: nil, Foreign: true}
	c.foreign[o.Key] = p
	return p
}

// shapeOf builds a zero-like structure with the same shape (for untyped array objects).
func (ex *Exec) shapeOf(v Value) Value {
	switch x := v.(type) {
	case *ArrayV:
		n := &ArrayV{Elems: make([]Value, len(x.Elems))}
		for i, e := range x.Elems {
			n.Elems[i] = ex.shapeOf(e)
		}
		return n
	case *StructV:
		n := &StructV{Fields: make([]Value, len(x.Fields))}
		for i, e := range x.Fields {
			n.Fields[i] = ex.shapeOf(e)
		}
		return n
	}
	return v
}

func (ex *Exec) concStore(p *Ptr, v Value) {
	c := ex.conc
	if !c.active() || p.Obj == nil || !ex.isSharedObj(p.Obj) {
		ex.rawStore(p, copyVal(v))
		return
	}
	ex.sharedStore(p, v, false)
	ex.rawStore(p, copyVal(v))
}

func (ex *Exec) sharedStore(p *Ptr, v Value, atomic bool) {
	switch x := v.(type) {
	case *StructV:
		for i, f := range x.Fields {
			ex.sharedStore(p.child(i), f, atomic)
		}
		return
	case *ArrayV:
		for i, f := range x.Elems {
			ex.sharedStore(p.child(i), f, atomic)
		}
		return
	}
	c := ex.conc
	loc := ex.locKey(p)
	if c.newWrite[loc] == nil {
		c.newWrite[loc] = map[int]bool{}
	}
	c.newWrite[loc][c.curThread] = true
	if c.readCache != nil {
		if len(c.heldLocks) > 0 && !atomic {
			c.readCache[loc] = v
		} else {
			delete(c.readCache, loc)
		}
	}
	if t, ok := v.(*Term); ok {
		we := ex.addEvent(&Event{Kind: "w", Loc: loc, WV: t, Atomic: atomic, Plain: !atomic})
		ex.noteDeps(we, t)
		return
	}
	// reference value: publish what it points to, then write its id
	ex.publish(v)
	rc := refCand{Key: ex.refKey(v), V: v}
	found := false
	for _, o := range c.newCands[loc] {
		if o.Key == rc.Key {
			found = true
		}
	}
	if !found {
		c.newCands[loc] = append(c.newCands[loc], rc)
	}
	ex.addEvent(&Event{Kind: "w", Loc: loc, WV: ex.ts.Int(SInt(32, false), uint64(ex.refID(rc))), Atomic: atomic, Plain: !atomic, Aux: "ref", HasRef: true, RefID: ex.refID(rc)})
}

// publish marks the thread-local objects reachable from v as shared and emits write events for
// their current contents (they become visible to other threads through the publishing store).
func (ex *Exec) publish(v Value) {
	switch x := v.(type) {
	case *Ptr:
		if x.Obj != nil {
			ex.publishObj(x.Obj)
		}
	case *SliceV:
		if x.Arr != nil {
			ex.publishObj(x.Arr)
		}
	case *IfaceV:
		if x.V != nil {
			ex.publish(x.V)
		}
	case *Closure:
		for _, b := range x.Bind {
			ex.publish(b)
		}
	case *StructV:
		for _, f := range x.Fields {
			ex.publish(f)
		}
	case *ArrayV:
		for _, f := range x.Elems {
			ex.publish(f)
		}
	}
}

func (ex *Exec) publishObj(o *Object) {
	if o.Shared || ex.conc.pubDone[o] {
		return
	}
	ex.conc.pubDone[o] = true
	o.Shared = true
	// contents become write events (initialisation happens-before the publishing store); they are
	// marked as initialising writes: another thread can reach the object only through the reference
	// that is published afterwards, so these writes cannot race with its accesses (a racy
	// publication shows up as a race on the location holding the reference)
	n0 := len(ex.conc.cur.Events)
	ex.sharedStore(&Ptr{Obj: o}, o.V, false)
	for _, e := range ex.conc.cur.Events[n0:] {
		e.Init = true
	}
}

func (ex *Exec) concMapAccess(m *MapV, write bool) {
	c := ex.conc
	if !c.active() || c.mode == "final" {
		return
	}
	loc := fmt.Sprintf("map%d", m.ID)
	if m.ID/1000000 != c.curThread && !ex.mapIsCelled(m) {
		// a map that exists outside the thread: its CONTENTS are not modelled as shared state (each
		// thread is explored on the contents at the fork); composeAndCheck refuses to decide a
		// harness in which one thread changes such a map and another one looks at it
		if c.mapAcc == nil {
			c.mapAcc = map[string]map[int]bool{}
		}
		if c.mapAcc[loc] == nil {
			c.mapAcc[loc] = map[int]bool{}
		}
		c.mapAcc[loc][c.curThread] = c.mapAcc[loc][c.curThread] || write
	}
	if write {
		if c.newWrite[loc] == nil {
			c.newWrite[loc] = map[int]bool{}
		}
		c.newWrite[loc][c.curThread] = true
		ex.addEvent(&Event{Kind: "mapw", Loc: loc, Plain: true})
	} else {
		ex.addEvent(&Event{Kind: "mapr", Loc: loc, Plain: true})
	}
}

// mapIsCelled: the map existed at the fork and its entries are shared cells.
func (ex *Exec) mapIsCelled(m *MapV) bool {
	c := ex.conc
	if c == nil || c.snap == nil || ex.h.Opts["maps"] == "local" {
		return false
	}
	for _, sm := range c.snap.maps {
		if sm == m {
			return true
		}
	}
	return false
}

// concNewMapKey: a thread inserts a key the map did not have at the fork.  In this pass the entry is
// local to the thread's path; the key is remembered and before the next pass of the fix point the
// snapshot gets an ABSENT shared cell for it, so that every thread (the inserting one included)
// then reads and writes the same cell.
func (ex *Exec) concNewMapKey(m *MapV, ks string, k Value, elem types.Type) {
	c := ex.conc
	if !c.active() || c.mode != "thread" || !ex.mapIsCelled(m) {
		return
	}
	if c.newMapKeys == nil {
		c.newMapKeys = map[int]map[string]newMapKey{}
	}
	if c.newMapKeys[m.ID] == nil {
		c.newMapKeys[m.ID] = map[string]newMapKey{}
	}
	if _, ok := c.newMapKeys[m.ID][ks]; !ok {
		c.newMapKeys[m.ID][ks] = newMapKey{K: k, Zero: ex.zero(elem)}
	}
}

// addAbsentCells extends the fork snapshot by absent cells for the keys threads inserted in the
// pass that just ended; reports whether anything was added (another pass is needed).
func (ex *Exec) addAbsentCells() bool {
	c := ex.conc
	added := false
	s := c.snap
	for i, m := range s.maps {
		nk := c.newMapKeys[m.ID]
		if len(nk) == 0 {
			continue
		}
		keys := make([]string, 0, len(nk))
		for k := range nk {
			keys = append(keys, k)
		}
		sort.Strings(keys)
		for _, ks := range keys {
			if _, ok := s.mapE[i][ks]; ok {
				continue
			}
			s.nextObj++
			o := &Object{ID: s.nextObj, V: &StructV{Fields: []Value{ex.ts.Bool(false), copyVal(nk[ks].Zero)}}, Label: "mapcell", Shared: true}
			o.Key = fmt.Sprintf("mapcell%d[%s]", m.ID, sanitize(ks))
			s.objs = append(s.objs, o)
			s.vals = append(s.vals, copyVal(o.V))
			s.shared = append(s.shared, true)
			c.snapIdx[o] = len(s.objs) - 1
			s.mapE[i][ks] = &mapEntry{K: nk[ks].K, V: copyVal(nk[ks].Zero), Cell: o}
			added = true
		}
	}
	return added
}

// ---------------------------------------------------------------------------
// synchronisation

func (ex *Exec) concLock(p *Ptr, op string) {
	c := ex.conc
	if !c.active() || c.mode == "final" {
		// sequential semantics (setup / quiescent final phase)
		return
	}
	loc := "lock:" + ex.locKey(p)
	c.readCache = map[string]Value{}
	switch op {
	case "lock", "wlock":
		ex.addEvent(&Event{Kind: "lock", Loc: loc})
		c.heldLocks = append(c.heldLocks, loc)
	case "rlock":
		ex.addEvent(&Event{Kind: "rlock", Loc: loc})
		c.heldLocks = append(c.heldLocks, "r:"+loc)
	case "unlock", "wunlock":
		ex.addEvent(&Event{Kind: "unlock", Loc: loc})
		c.heldLocks = removeLast(c.heldLocks, loc)
	case "runlock":
		ex.addEvent(&Event{Kind: "runlock", Loc: loc})
		c.heldLocks = removeLast(c.heldLocks, "r:"+loc)
	}
}

func removeLast(xs []string, x string) []string {
	for i := len(xs) - 1; i >= 0; i-- {
		if xs[i] == x {
			return append(append([]string{}, xs[:i]...), xs[i+1:]...)
		}
	}
	return xs
}

func (ex *Exec) concAtomic(op string, p *Ptr, a, b *Term) Value {
	c := ex.conc
	if !c.active() || !ex.isSharedObj(p.Obj) {
		switch op {
		case "load":
			return copyVal(ex.rawLoad(p))
		case "store":
			ex.rawStore(p, a)
			return nil
		case "add":
			nv := ex.ts.IntBin("add", ex.rawLoad(p).(*Term), a)
			ex.rawStore(p, nv)
			return nv
		case "swap":
			old := copyVal(ex.rawLoad(p))
			ex.rawStore(p, a)
			return old
		default:
			old := ex.rawLoad(p).(*Term)
			eq := ex.ts.IntCmp("eq", old, a)
			ex.rawStore(p, ex.ts.Ite(eq, b, old))
			return eq
		}
	}
	loc := ex.locKey(p)
	cur := ex.rawLoad(p).(*Term)
	markW := func() {
		if c.newWrite[loc] == nil {
			c.newWrite[loc] = map[int]bool{}
		}
		c.newWrite[loc][c.curThread] = true
	}
	readVal := func() *Term {
		if ex.foreignWriter(loc) || (c.mode == "final" && ex.anyWriter(loc)) {
			ex.noteInit(p, loc)
			return ex.ts.FreshVar(fmt.Sprintf("rd.t%d.%s", c.curThread, sanitize(loc)), cur.Sort)
		}
		return nil
	}
	switch op {
	case "load":
		rv := readVal()
		if rv == nil {
			return cur
		}
		ald := ex.addEvent(&Event{Kind: "r", Loc: loc, RV: rv, Atomic: true})
		if c.cur.readVar == nil {
			c.cur.readVar = map[int]*Event{}
		}
		c.cur.readVar[rv.ID] = ald
		return rv
	case "store":
		markW()
		ex.noteDeps(ex.addEvent(&Event{Kind: "w", Loc: loc, WV: a, Atomic: true}), a)
		ex.rawStore(p, a)
		return nil
	case "add":
		markW()
		rv := readVal()
		old := cur
		if rv != nil {
			old = rv
		}
		nv := ex.ts.IntBin("add", old, a)
		ex.noteDeps(ex.addEvent(&Event{Kind: "rmw", Loc: loc, RV: rv, WV: nv, Atomic: true}), a)
		ex.rawStore(p, nv)
		return nv
	case "swap":
		markW()
		rv := readVal()
		old := cur
		if rv != nil {
			old = rv
		}
		ex.noteDeps(ex.addEvent(&Event{Kind: "rmw", Loc: loc, RV: rv, WV: a, Atomic: true}), a)
		ex.rawStore(p, a)
		return old
	default: // cas
		markW()
		rv := readVal()
		old := cur
		if rv != nil {
			old = rv
		}
		eq := ex.ts.IntCmp("eq", old, a)
		nv := ex.ts.Ite(eq, b, old)
		ex.noteDeps(ex.addEvent(&Event{Kind: "rmw", Loc: loc, RV: rv, WV: nv, Atomic: true}), ex.ts.And(ex.ts.IntCmp("eq", a, a), ex.ts.IntCmp("eq", b, b)))
		ex.rawStore(p, nv)
		return eq
	}
}

func (ex *Exec) condL(p *Ptr) *Ptr {
	ct := p.Obj.Typ.Underlying().(*types.Struct)
	for i := 0; i < ct.NumFields(); i++ {
		if ct.Field(i).Name() == "L" {
			if liv, ok := ex.rawLoad(p.child(i)).(*IfaceV); ok {
				if lp, ok := liv.V.(*Ptr); ok {
					return lp
				}
			}
		}
	}
	panic(unsupported("sync.Cond without a *Mutex locker"))
}

func (ex *Exec) concCond(p *Ptr, op string) {
	c := ex.conc
	if !c.active() {
		return
	}
	if p.Obj == nil {
		panic(unsupported(fmt.Sprintf("sync.Cond op %s on nil cond pointer in thread %s at %s", op, c.threads[c.curThread].Name, ex.stack())))
	}
	loc := "cond:" + ex.locKey(p)
	switch op {
	case "broadcast":
		ex.addEvent(&Event{Kind: "bcast", Loc: loc})
	case "signal":
		ex.addEvent(&Event{Kind: "signal", Loc: loc})
	case "wait":
		if c.mode == "final" {
			panic(goBlocked{"Cond.Wait in the quiescent phase"})
		}
		// the same Wait site passed more often than the unwinding bound on one path: retry loop
		if c.waitCnt == nil {
			c.waitCnt = map[string]int{}
		}
		c.waitCnt[ex.curPos()]++
		if c.waitCnt[ex.curPos()] > ex.h.Unwind {
			if ex.h.Opts["unwindcut"] == "1" {
				ex.sess.res.UnwindCuts++
				panic(pathEnd{"unwinding bound reached (cut)"})
			}
			ex.sess.UnwindFailure(ex.curPos())
			panic(pathEnd{"unwinding bound reached"})
		}
		lp := ex.condL(p)
		lloc := "lock:" + ex.locKey(lp)
		// ticket is taken, then L is released (order of sync.Cond.Wait)
		c.readCache = map[string]Value{}
		enq := ex.addEvent(&Event{Kind: "enq", Loc: loc})
		ex.addEvent(&Event{Kind: "unlock", Loc: lloc})
		c.heldLocks = removeLast(c.heldLocks, lloc)
		k := ex.ctl.Choose(2, func(int) bool { return true })
		if k == 1 {
			enq.Aux = "never-woken"
			panic(goBlocked{"sync.Cond.Wait never signalled"})
		}
		w := ex.addEvent(&Event{Kind: "wake", Loc: loc, Peer: enq})
		enq.Peer = w
		ex.addEvent(&Event{Kind: "lock", Loc: lloc})
		c.heldLocks = append(c.heldLocks, lloc)
	}
}

func (ex *Exec) concWaitGroup(p *Ptr, op string, d *Term) {
	c := ex.conc
	if !c.active() || c.mode == "final" {
		return
	}
	loc := "wg:" + ex.locKey(p)
	switch op {
	case "add":
		ex.addEvent(&Event{Kind: "wgadd", Loc: loc, WV: d})
	case "done":
		ex.addEvent(&Event{Kind: "wgadd", Loc: loc, WV: ex.ts.IntS(SInt(64, true), -1)})
	case "wait":
		ex.addEvent(&Event{Kind: "wgwait", Loc: loc})
	}
}

func (ex *Exec) concTimerCreated(t *timerState) {
	c := ex.conc
	if !c.active() {
		return
	}
	ex.addEvent(&Event{Kind: "timer", Loc: fmt.Sprintf("timer%d", t.Ch.ID)})
}
func (ex *Exec) concTimerStopped(t *timerState) {}

func (ex *Exec) concGo(fnv Value, args []Value) {
	c := ex.conc
	if !c.active() || c.mode == "final" {
		panic(unsupported("go statement outside a thread in concurrent mode"))
	}
	// what the goroutine receives is published (initialising writes) BEFORE the go event: the child is
	// ordered after the go event and therefore after these writes
	ex.publish(fnv)
	for _, a := range args {
		ex.publish(a)
	}
	g := ex.addEvent(&Event{Kind: "go"})
	// register (or find) the child thread: keyed by parent thread, go-site and occurrence
	name := fmt.Sprintf("%s/go@%s#%d", c.threads[c.curThread].Name, ex.curPos(), countKind(c.cur.Events, "go"))
	for t := 1; t < len(c.threads); t++ {
		if c.threads[t].Name == name {
			g.Aux = fmt.Sprint(t)
			return
		}
	}
	c.threads = append(c.threads, &ThreadSpec{Name: name, Fn: fnv, Args: args, Parent: c.curThread})
	g.Aux = fmt.Sprint(len(c.threads) - 1)
}

func countKind(evs []*Event, k string) int {
	n := 0
	for _, e := range evs {
		if e.Kind == k {
			n++
		}
	}
	return n
}

func chanLoc(ch *ChanV) string { return fmt.Sprintf("chan%d", ch.ID) }

func (ex *Exec) concClose(ch *ChanV) {
	if !ex.conc.active() {
		ch.Closed = true
		return
	}
	ex.addEvent(&Event{Kind: "close", Loc: chanLoc(ch)})
	ch.Closed = true
}

func (ex *Exec) concSend(ch *ChanV, v Value, blocking bool) {
	panic(unsupported("blocking channel send in concurrent mode"))
}

func (ex *Exec) concRecv(ch *ChanV) (Value, *Term) {
	panic(unsupported("bare channel receive in concurrent mode (use select)"))
}

// bumpSite bounds the number of times one blocking site is passed on a path (retry loops).
func (ex *Exec) bumpSite(site ssa.Instruction) {
	ex.forkCnt[site]++
	if ex.forkCnt[site] > ex.h.Unwind {
		if ex.h.Opts["unwindcut"] == "1" {
			ex.sess.res.UnwindCuts++
			panic(pathEnd{"unwinding bound reached (cut)"})
		}
		ex.sess.UnwindFailure(ex.curPos())
		panic(pathEnd{"unwinding bound reached"})
	}
}

// concSelect models select in concurrent mode.
func (ex *Exec) concSelect(fr *Frame, x *ssa.Select) Value {
	c := ex.conc
	ts := ex.ts
	i64 := SInt(64, true)
	n := len(x.States)
	chans := make([]*ChanV, n)
	for i, st := range x.States {
		chans[i] = ex.get(fr, st.Chan).(*ChanV)
	}
	if !c.active() || c.mode == "final" {
		panic(unsupported("select in the setup / final phase of a concurrent harness"))
	}
	ex.bumpSite(x)
	mkRes := func(idx int, recvOK bool, val Value) Value {
		res := TupleV{ts.IntS(i64, int64(idx)), ts.Bool(recvOK)}
		for i, st := range x.States {
			if st.Dir != types.RecvOnly {
				continue
			}
			et := st.Chan.Type().Underlying().(*types.Chan).Elem()
			if i == idx && val != nil {
				res = append(res, val)
			} else {
				res = append(res, ex.zero(et))
			}
		}
		return res
	}
	if !x.Blocking {
		// non-blocking: only the hand-off send `select { case ch <- v: default: }` is modelled
		if n != 1 || x.States[0].Dir != types.SendOnly {
			panic(unsupported("non-blocking select other than a single send"))
		}
		ch := chans[0]
		v := ex.get(fr, x.States[0].Send)
		ex.publish(v)
		k := ex.ctl.Choose(2, func(int) bool { return true })
		rc := refCand{Key: ex.refKey(v), V: v}
		loc := chanLoc(ch) + ".val"
		if k == 0 {
			found := false
			for _, o := range c.newCands[loc] {
				if o.Key == rc.Key {
					found = true
				}
			}
			if !found {
				c.newCands[loc] = append(c.newCands[loc], rc)
			}
			ex.addEvent(&Event{Kind: "send", Loc: chanLoc(ch), WV: ts.Int(SInt(32, false), uint64(ex.refID(rc))), Aux: "ok", Cap: ch.Cap})
			return mkRes(0, false, nil)
		}
		ex.addEvent(&Event{Kind: "send", Loc: chanLoc(ch), Aux: "fail", Cap: ch.Cap})
		return mkRes(-1, false, nil)
	}
	// blocking select: park, then one outcome
	park := ex.addEvent(&Event{Kind: "park"})
	type option struct {
		idx  int
		kind string
		cand *refCand
	}
	var opts []option
	var ctxNames []string
	for i, st := range x.States {
		ch := chans[i]
		if ch.Nil || st.Dir != types.RecvOnly {
			if st.Dir == types.SendOnly && !ch.Nil {
				panic(unsupported("blocking select with a send case"))
			}
			continue
		}
		switch {
		case ch.TimerID > 0:
			if !ex.h.NoTimers {
				opts = append(opts, option{i, "timer", nil})
			}
		case ch.Ctx != nil:
			if ch.Ctx.CancelEvent {
				opts = append(opts, option{i, "cancel", nil})
				ctxNames = append(ctxNames, "ctx:"+ch.Ctx.Name)
			}
		default:
			opts = append(opts, option{i, "closed", nil})
			for k := range c.cands[chanLoc(ch)+".val"] {
				rc := c.cands[chanLoc(ch)+".val"][k]
				opts = append(opts, option{i, "recv", &rc})
			}
		}
	}
	hasTimer := false
	for _, o := range opts {
		if o.kind == "timer" {
			hasTimer = true
		}
	}
	nOpts := len(opts) + 1
	if hasTimer {
		nOpts = len(opts) // an armed timer always fires eventually: the select cannot stay parked forever
	}
	k := ex.ctl.Choose(nOpts, func(int) bool { return true })
	park.Ctxs = strings.Join(ctxNames, ",")
	if k == len(opts) {
		park.Aux = "never-woken"
		var locs []string
		for i := range x.States {
			if !chans[i].Nil {
				locs = append(locs, chanLoc(chans[i]))
			}
		}
		park.Loc = strings.Join(locs, ",")
		panic(goBlocked{"select never woken"})
	}
	o := opts[k]
	ch := chans[o.idx]
	w := ex.addEvent(&Event{Kind: "selwake", Loc: chanLoc(ch), Aux: o.kind, Peer: park, Cap: ch.Cap})
	if o.kind == "cancel" {
		w.Loc = "ctx:" + ch.Ctx.Name
	}
	park.Peer = w
	var locs []string
	for i := range x.States {
		if !chans[i].Nil {
			locs = append(locs, chanLoc(chans[i]))
		}
	}
	park.Loc = strings.Join(locs, ",")
	switch o.kind {
	case "timer":
		return mkRes(o.idx, true, ex.timeValue(ts.IntS(i64, 0)))
	case "cancel":
		return mkRes(o.idx, false, nil)
	case "closed":
		return mkRes(o.idx, false, nil)
	default:
		w.WV = ts.Int(SInt(32, false), uint64(ex.refID(*o.cand)))
		return mkRes(o.idx, true, ex.materialize(*o.cand))
	}
}

// ---------------------------------------------------------------------------
// composition

type comboResult struct {
	ans string
}

func (ex *Exec) clk(e *Event) string { return fmt.Sprintf("c%d", e.ID) }

// composeAndCheck poses, for every combination of thread paths, the event-order query.
func (ex *Exec) composeAndCheck() {
	c := ex.conc
	if c == nil || c.final == nil {
		return
	}
	res := ex.sess.res
	final := c.final
	final.Classes = append([]classPred{}, ex.classes...)
	finalPC := ex.sess.pcSince(0)
	nThreads := len(c.threads) - 1
	if ex.h.Opts["race"] == "1" {
		ex.raceBySites(final, finalPC)
		return
	}
	for loc, acc := range c.mapAcc {
		for w, writes := range acc {
			if !writes {
				continue
			}
			for t := range acc {
				if t != w {
					msg := fmt.Sprintf("%s: unsupported: the contents of %s are changed by thread %s and accessed by thread %s; map contents are not modelled as state shared between threads", ex.h.Name, loc, c.threads[w].Name, c.threads[t].Name)
					for _, e := range res.Errors {
						if e == msg {
							msg = ""
						}
					}
					if msg != "" {
						res.Errors = append(res.Errors, msg)
					}
					return
				}
			}
		}
	}
	// options of thread t given the chosen prefix: nil if its parent path did not spawn it
	options := func(t int, acc []*ThreadPath) []*ThreadPath {
		spec := c.threads[t]
		if spec.Parent != 0 {
			pp := acc[spec.Parent-1]
			spawned := false
			if pp != nil {
				for _, e := range pp.Events {
					if e.Kind == "go" && e.Aux == fmt.Sprint(t) {
						spawned = true
					}
				}
			}
			if !spawned {
				return []*ThreadPath{nil}
			}
		}
		return spec.Paths
	}
	// size of the full product (upper bound): decides whether prefixes are pruned with the solver
	product := 1
	for t := 1; t <= nThreads; t++ {
		if n := len(c.threads[t].Paths); n > 1 && product < 1<<30 {
			product *= n
		}
	}
	prefixPrune := product > 2000 && ex.h.Opts["prune"] != "off" && os.Getenv("VERIF_NO_PREFIX_PRUNE") == ""
	// breadth-first enumeration, thread by thread; with prefixPrune every prefix of >= 2 threads is
	// first checked against the RELAXED event-order query (checkCombo partial mode): an unsat prefix
	// has no consistent extension and is dropped with all its extensions
	prefixes := [][]*ThreadPath{{}}
	for t := 1; t <= nThreads; t++ {
		var next [][]*ThreadPath
		tooMany := false
		for _, acc := range prefixes {
			opts := options(t, acc)
			if len(next)+len(opts) > 50*ex.h.MaxPaths {
				tooMany = true
				break
			}
			for _, p := range opts {
				next = append(next, append(append([]*ThreadPath{}, acc...), p))
			}
		}
		if tooMany {
			res.Inconclusive = append(res.Inconclusive, fmt.Sprintf("%s: more than %d thread-path prefixes at thread %d: budget exceeded", ex.h.Name, 50*ex.h.MaxPaths, t))
			return
		}
		if prefixPrune && t >= 2 && t < nThreads && len(next) > 1 {
			unchosen := map[int]bool{}
			for u := t + 1; u <= nThreads+1; u++ { // nThreads+1: the final phase
				unchosen[u] = true
			}
			keep := make([]bool, len(next))
			ex.parallelCombos(len(next), res, func(i int, sv *Solver, part *HarnessResult) {
				nonNil := 0
				for _, p := range next[i] {
					if p != nil && len(p.Events) > 0 {
						nonNil++
					}
				}
				if nonNil < 2 {
					keep[i] = true
					return
				}
				keep[i] = ex.checkCombo(next[i], nil, nil, sv, part, i, unchosen)
				if !keep[i] {
					part.PrunedPrefixes++
				}
			})
			kept := next[:0]
			for i, acc := range next {
				if keep[i] {
					kept = append(kept, acc)
				}
			}
			next = kept
		}
		prefixes = next
		if len(prefixes) > 50*ex.h.MaxPaths {
			res.Inconclusive = append(res.Inconclusive, fmt.Sprintf("%s: %d thread-path prefixes at thread %d exceed the budget", ex.h.Name, len(prefixes), t))
			return
		}
	}
	combos := prefixes
	if ex.h.Opts["prune"] != "off" {
		kept := combos[:0]
		for _, combo := range combos {
			if ex.staticallyInfeasible(combo) {
				res.PrunedCombos++
				continue
			}
			kept = append(kept, combo)
		}
		combos = kept
	}
	if verboseLog {
		for t := 1; t <= nThreads; t++ {
			for _, p := range c.threads[t].Paths {
				var kinds []string
				for _, e := range p.Events {
					kinds = append(kinds, e.Kind+":"+e.Loc)
				}
				logf("    thread %s path %v end=%s asserts=%d events=%v\n", c.threads[t].Name, p.Trace, p.End, len(p.Asserts), kinds)
			}
		}
		var kinds []string
		for _, e := range final.Events {
			kinds = append(kinds, e.Kind+":"+e.Loc)
		}
		logf("    final path %v asserts=%d events=%v\n", ex.ctl.trace, len(final.Asserts), kinds)
	}
	if len(combos) > ex.h.MaxPaths {
		res.Inconclusive = append(res.Inconclusive, fmt.Sprintf("%s: %d thread-path combinations exceed the budget %d", ex.h.Name, len(combos), ex.h.MaxPaths))
		return
	}
	res.ConcCombos += len(combos)
	ex.parallelCombos(len(combos), res, func(i int, sv *Solver, part *HarnessResult) {
		ex.checkCombo(combos[i], final, finalPC, sv, part, i, nil)
	})
}

// parallelCombos runs fn(i) for i in [0,n): independent solver queries spread over the free solver
// slots (this path keeps its own solver and result; extra workers start one solver process each and
// collect into a partial result that is merged at the end).
func (ex *Exec) parallelCombos(n int, res *HarnessResult, fn func(i int, sv *Solver, part *HarnessResult)) {
	nw := 1
	if n >= 64 {
		nw = cap(pathSlots)
		if nw > n/32 {
			nw = n / 32
		}
		if nw < 1 {
			nw = 1
		}
	}
	if nw == 1 {
		for i := 0; i < n; i++ {
			fn(i, ex.sess.solver, res)
		}
		return
	}
	var next int64 = -1
	done := make(chan struct{})
	var wg sync.WaitGroup
	parts := make([]*HarnessResult, nw)
	work := func(w int, sv *Solver, part *HarnessResult) {
		defer func() {
			if r := recover(); r != nil {
				part.Errors = append(part.Errors, fmt.Sprintf("%s: engine panic in a combination worker: %v", ex.h.Name, r))
			}
		}()
		for {
			i := int(atomic.AddInt64(&next, 1))
			if i >= n {
				return
			}
			fn(i, sv, part)
		}
	}
	for w := 1; w < nw; w++ {
		wg.Add(1)
		go func(w int) {
			defer wg.Done()
			select {
			case pathSlots <- struct{}{}:
			case <-done:
				return
			}
			defer func() { <-pathSlots }()
			sv, err := StartSolverTO(ex.sess.solver.kind, ex.h.FeasTO)
			if err != nil {
				return
			}
			defer sv.Close()
			part := &HarnessResult{H: ex.h, Obls: map[string]*OblStat{}, Reaches: map[string]int{}, Funcs: map[string]bool{}, Stubs: map[string]bool{}, UnwindFail: map[string]bool{}}
			parts[w] = part
			work(w, sv, part)
		}(w)
	}
	work(0, ex.sess.solver, res)
	close(done)
	wg.Wait()
	for _, p := range parts {
		if p != nil {
			res.merge(p)
		}
	}
}

// staticallyInfeasible: cheap necessary conditions of the event-order query, decided without the
// solver (the same facts the query would refute): a reference-valued read fixed to candidate k needs
// the initial value or some write of k to that location in the combination; a Cond wake-up needs a
// Broadcast/Signal on that Cond; a receive needs a successful send by another thread and vice versa;
// a receive-from-closed needs a close.  Sound pruning only: every combination it rejects has an
// unsatisfiable query.
func (ex *Exec) staticallyInfeasible(combo []*ThreadPath) bool {
	c := ex.conc
	type lk struct {
		loc string
		id  int
	}
	wrote := map[lk]bool{}
	has := map[string]bool{}
	for _, p := range combo {
		if p == nil {
			continue
		}
		for _, e := range p.Events {
			switch {
			case e.Kind == "w" && e.HasRef:
				wrote[lk{e.Loc, e.RefID}] = true
			case e.Kind == "bcast" || e.Kind == "signal":
				has["notify:"+e.Loc] = true
			case e.Kind == "close":
				has["close:"+e.Loc] = true
			case e.Kind == "send" && e.Aux == "ok":
				has[fmt.Sprintf("send:%s:%d", e.Loc, e.Thread)] = true
				has["sendany:"+e.Loc] = true
			case e.Kind == "selwake" && e.Aux == "recv":
				has[fmt.Sprintf("recv:%s:%d", e.Loc, e.Thread)] = true
			}
		}
	}
	for _, p := range combo {
		if p == nil {
			continue
		}
		for _, e := range p.Events {
			switch {
			case e.Kind == "r" && e.HasRef:
				if wrote[lk{e.Loc, e.RefID}] {
					continue
				}
				if init, ok := c.initVals[e.Loc]; ok {
					c.refMu.Lock()
					id, ok2 := c.refIDs[ex.refKey(init)]
					c.refMu.Unlock()
					if ok2 && id == e.RefID {
						continue
					}
				}
				if os.Getenv("VERIF_DEBUG_PRUNE") != "" {
					iv, iok := c.initVals[e.Loc]
					ik := ""
					if iok {
						ik = ex.refKey(iv)
					}
					logf("    prune: read %s ref=%d @%s thread %d has no provider (init known=%v key=%q id=%d)\n", e.Loc, e.RefID, e.Pos, e.Thread, iok, ik, c.refIDs[ik])
				}
				return true
			case e.Kind == "enq" && e.Peer != nil:
				if !has["notify:"+e.Loc] {
					ex.pruneLog(e, "no notify")
					return true
				}
			case e.Kind == "selwake" && e.Aux == "closed":
				if !has["close:"+e.Loc] {
					ex.pruneLog(e, "no close")
					return true
				}
			case e.Kind == "selwake" && e.Aux == "recv":
				ok := false
				for t := range combo {
					if t+1 != e.Thread && has[fmt.Sprintf("send:%s:%d", e.Loc, t+1)] {
						ok = true
					}
				}
				if !ok {
					ex.pruneLog(e, "no sender")
					return true
				}
			case e.Kind == "send" && e.Aux == "ok" && e.Cap == 0:
				ok := false
				for t := range combo {
					if t+1 != e.Thread && has[fmt.Sprintf("recv:%s:%d", e.Loc, t+1)] {
						ok = true
					}
				}
				if !ok {
					ex.pruneLog(e, "no receiver")
					return true
				}
			}
		}
	}
	return false
}

type lockSection struct {
	thread    int
	lock, unl *Event
	read      bool
}

// checkCombo poses the event-order query of one combination of thread paths.  With partial != nil
// (the set of thread indices not chosen yet; final == nil) only a RELAXATION of the query is built -
// every constraint that could be satisfied by an event of a thread not chosen yet is dropped - and
// only its satisfiability is decided: unsat means no extension of this prefix has a consistent
// schedule (used to prune the enumeration; returns false in that case).
func (ex *Exec) checkCombo(combo []*ThreadPath, final *ThreadPath, finalPC []*Term, solver *Solver, res *HarnessResult, comboNo int, partial map[int]bool) bool {
	c := ex.conc
	stat := func(id, kind string) *OblStat {
		st, ok := res.Obls[id]
		if !ok {
			st = &OblStat{ID: id, Kind: kind, Pos: map[string]bool{}}
			res.Obls[id] = st
		}
		return st
	}
	r := NewRenderer(ex.h.Mode)
	var sb strings.Builder
	sb.WriteString(r.Prelude())
	var events []*Event
	paths := append([]*ThreadPath{}, combo...)
	if final != nil {
		paths = append(paths, final)
	}
	for _, p := range paths {
		if p != nil {
			events = append(events, p.Events...)
		}
	}
	res.Events += len(events)
	for _, e := range events {
		fmt.Fprintf(&sb, "(declare-const %s Int)\n", ex.clk(e))
		if e.Kind == "send" && e.Aux == "ok" {
			fmt.Fprintf(&sb, "(declare-const sndto%d Int)\n", e.ID)
		}
	}
	assertf := func(format string, a ...interface{}) {
		sb.WriteString("(assert " + fmt.Sprintf(format, a...) + ")\n")
	}
	lt := func(a, b *Event) string { return "(< " + ex.clk(a) + " " + ex.clk(b) + ")" }
	// distinct timestamps in [1..N]
	if len(events) > 1 {
		names := make([]string, len(events))
		for i, e := range events {
			names[i] = ex.clk(e)
		}
		assertf("(distinct %s)", strings.Join(names, " "))
	}
	clkMax := len(events)
	if partial != nil {
		clkMax = 3*len(events) + 3*len(partial) + 10 // room for the events of the threads not chosen yet (ghost instants lie between)
	}
	for _, e := range events {
		assertf("(and (<= 1 %s) (<= %s %d))", ex.clk(e), ex.clk(e), clkMax)
	}
	// program order, spawn order, join order
	for _, p := range paths {
		if p == nil {
			continue
		}
		for i := 1; i < len(p.Events); i++ {
			assertf("%s", lt(p.Events[i-1], p.Events[i]))
		}
	}
	for t, p := range combo {
		if p == nil {
			continue
		}
		spec := c.threads[t+1]
		if spec.Parent != 0 {
			pp := combo[spec.Parent-1]
			for _, e := range pp.Events {
				if e.Kind == "go" && e.Aux == fmt.Sprint(t+1) && len(p.Events) > 0 {
					assertf("%s", lt(e, p.Events[0]))
				}
			}
		}
		// the final (quiescent) phase follows everything
		if final != nil && len(final.Events) > 0 && len(p.Events) > 0 {
			assertf("%s", lt(p.Events[len(p.Events)-1], final.Events[0]))
		}
	}
	// SpawnAfter: the thread's first event follows the first blocking event (parked select,
	// Cond.Wait ticket) - or, if there is none, the last event - of every listed thread and of
	// every goroutine started (transitively) by a listed thread
	for t, p := range combo {
		if p == nil || len(p.Events) == 0 || len(c.threads[t+1].After) == 0 {
			continue
		}
		for _, an := range c.threads[t+1].After {
			found := false
			for u, q := range combo {
				if q == nil || len(q.Events) == 0 {
					continue
				}
				// is thread u+1 the named thread or a descendant of it?
				anc := u + 1
				isDesc := false
				for anc != 0 {
					if c.threads[anc].Name == an {
						isDesc = true
						break
					}
					anc = c.threads[anc].Parent
				}
				if !isDesc {
					continue
				}
				found = true
				target := q.Events[len(q.Events)-1]
				for _, e := range q.Events {
					if e.Kind == "park" || e.Kind == "enq" {
						target = e
						break
					}
				}
				assertf("%s", lt(target, p.Events[0]))
			}
			if !found {
				for _, sp := range c.threads[1:] {
					if sp.Name == an {
						found = true // exists but has no events in this combination
					}
				}
				if !found {
					panic(unsupported("SpawnAfter: unknown thread " + an))
				}
			}
		}
	}
	// SpawnAfterDone: the thread's first event follows the last event of every listed thread, which
	// must have returned (a listed thread that ends blocked makes the combination infeasible)
	for t, p := range combo {
		if p == nil || len(p.Events) == 0 {
			continue
		}
		for _, an := range c.threads[t+1].AfterDone {
			for u, q := range combo {
				if q == nil || c.threads[u+1].Name != an {
					continue
				}
				if q.End != "done" || len(q.Events) == 0 {
					assertf("false")
					continue
				}
				assertf("%s", lt(q.Events[len(q.Events)-1], p.Events[0]))
			}
		}
	}
	// partial mode: a ghost "begin" instant gb<u> for every thread u not chosen yet.  Whatever u does
	// happens after gb<u>; gb<u> follows the go statement of a chosen parent (or the parent's ghost)
	// and, for SpawnAfter threads, the first blocking event of every chosen listed thread (the ghost
	// of a listed thread that is not chosen yet).  A constraint that an event of u could satisfy is
	// relaxed to "gb<u> precedes the event" instead of being dropped.
	nUser := len(c.threads) - 1
	var ghosts []int
	if partial != nil {
		for u := 1; u <= nUser; u++ {
			if partial[u] {
				ghosts = append(ghosts, u)
				fmt.Fprintf(&sb, "(declare-const gb%d Int)\n", u)
			}
		}
		for _, u := range ghosts {
			spec := c.threads[u]
			if spec.Parent != 0 {
				if partial[spec.Parent] {
					assertf("(< gb%d gb%d)", spec.Parent, u)
				} else if pp := combo[spec.Parent-1]; pp != nil {
					for _, e := range pp.Events {
						if e.Kind == "go" && e.Aux == fmt.Sprint(u) {
							assertf("(< %s gb%d)", ex.clk(e), u)
						}
					}
				}
			}
			for _, an := range spec.AfterDone {
				for v := 1; v <= nUser; v++ {
					if c.threads[v].Name != an {
						continue
					}
					if partial[v] {
						assertf("(< gb%d gb%d)", v, u)
					} else if v-1 < len(combo) && combo[v-1] != nil && len(combo[v-1].Events) > 0 {
						q := combo[v-1]
						if q.End != "done" {
							assertf("false")
						} else {
							assertf("(< %s gb%d)", ex.clk(q.Events[len(q.Events)-1]), u)
						}
					}
				}
			}
			for _, an := range spec.After {
				for v := 1; v <= nUser; v++ {
					anc, isDesc := v, false
					for anc != 0 {
						if c.threads[anc].Name == an {
							isDesc = true
							break
						}
						anc = c.threads[anc].Parent
					}
					if !isDesc {
						continue
					}
					if partial[v] {
						if v != u {
							assertf("(< gb%d gb%d)", v, u)
						}
						continue
					}
					if v-1 < len(combo) && combo[v-1] != nil && len(combo[v-1].Events) > 0 {
						q := combo[v-1]
						target := q.Events[len(q.Events)-1]
						for _, e := range q.Events {
							if e.Kind == "park" || e.Kind == "enq" {
								target = e
								break
							}
						}
						assertf("(< %s gb%d)", ex.clk(target), u)
					}
				}
			}
		}
	}
	// ghostBefore(e, filter): some not-yet-chosen thread (accepted by filter) may act before event e
	ghostBefore := func(e *Event, filter func(u int) bool) []string {
		var alts []string
		for _, u := range ghosts {
			if filter == nil || filter(u) {
				alts = append(alts, fmt.Sprintf("(< gb%d %s)", u, ex.clk(e)))
			}
		}
		return alts
	}
	// path conditions and read-from
	emit := func(t *Term) string {
		n := r.Ref(t)
		sb.WriteString(r.Take())
		return n
	}
	for _, p := range paths {
		if p == nil {
			continue
		}
		for _, t := range p.PC {
			assertf("%s", emit(t))
		}
	}
	for _, t := range finalPC {
		assertf("%s", emit(t))
	}
	// blocked(thread) variables of the final phase
	for name, v := range c.blockedV {
		if partial != nil {
			break
		}
		val := "false"
		for t, p := range combo {
			if p != nil && c.threads[t+1].Name == name && strings.HasPrefix(p.End, "blocked") {
				val = "true"
			}
		}
		assertf("(= %s %s)", emit(v), val)
	}
	// read-from
	writesByLoc := map[string][]*Event{}
	for _, e := range events {
		if (e.Kind == "w" || e.Kind == "rmw") && e.WV != nil {
			writesByLoc[e.Loc] = append(writesByLoc[e.Loc], e)
		}
	}
	for _, e := range events {
		if (e.Kind != "r" && e.Kind != "rmw") || e.RV == nil {
			continue
		}
		var alts []string
		if partial != nil {
			if c.writers[e.Loc][nUser+1] {
				continue // written by the final phase (not ordered by a ghost): unconstrained
			}
			alts = append(alts, ghostBefore(e, func(u int) bool { return c.writers[e.Loc][u] })...)
		}
		rv := emit(e.RV)
		ws := writesByLoc[e.Loc]
		// initial value
		if init, ok := c.initTerm(ex, e.Loc, e.RV.Sort); ok {
			var conj []string
			for _, w := range ws {
				if w != e {
					conj = append(conj, lt(e, w))
				}
			}
			conj = append(conj, "(= "+rv+" "+emit(init)+")")
			alts = append(alts, "(and "+strings.Join(conj, " ")+")")
		}
		for _, w := range ws {
			if w == e {
				continue
			}
			conj := []string{lt(w, e)}
			for _, w2 := range ws {
				if w2 != w && w2 != e {
					conj = append(conj, fmt.Sprintf("(or %s %s)", lt(w2, w), lt(e, w2)))
				}
			}
			conj = append(conj, "(= "+rv+" "+emit(w.WV)+")")
			alts = append(alts, "(and "+strings.Join(conj, " ")+")")
		}
		if len(alts) == 0 {
			assertf("false")
		} else {
			assertf("(or %s)", strings.Join(alts, " "))
		}
	}
	// locks: mutual exclusion of critical sections
	var secs []*lockSection
	for ti, p := range paths {
		if p == nil {
			continue
		}
		open := map[string][]*lockSection{}
		for _, e := range p.Events {
			switch e.Kind {
			case "lock", "rlock":
				s := &lockSection{thread: ti, lock: e, read: e.Kind == "rlock"}
				open[e.Loc] = append(open[e.Loc], s)
				secs = append(secs, s)
			case "unlock", "runlock":
				if l := open[e.Loc]; len(l) > 0 {
					l[len(l)-1].unl = e
					open[e.Loc] = l[:len(l)-1]
				}
			}
		}
	}
	for i := 0; i < len(secs); i++ {
		for j := i + 1; j < len(secs); j++ {
			a, b := secs[i], secs[j]
			if a.lock.Loc != b.lock.Loc || a.thread == b.thread || (a.read && b.read) {
				continue
			}
			var alts []string
			if a.unl != nil {
				alts = append(alts, lt(a.unl, b.lock))
			}
			if b.unl != nil {
				alts = append(alts, lt(b.unl, a.lock))
			}
			if len(alts) == 0 {
				assertf("false")
			} else {
				assertf("(or %s)", strings.Join(alts, " "))
			}
		}
	}
	// failed TryLock / TryRLock: a conflicting critical section of another thread is open at that instant
	for _, e := range events {
		if e.Kind != "trylockfail" {
			continue
		}
		var alts []string
		if partial != nil {
			alts = append(alts, ghostBefore(e, func(u int) bool { return u != e.Thread })...)
		}
		for _, sct := range secs {
			if sct.lock.Loc != e.Loc || sct.lock.Thread == e.Thread || (sct.read && e.Aux == "r") {
				continue
			}
			if sct.unl != nil {
				alts = append(alts, fmt.Sprintf("(and %s %s)", lt(sct.lock, e), lt(e, sct.unl)))
			} else {
				alts = append(alts, lt(sct.lock, e))
			}
		}
		if len(alts) == 0 {
			assertf("false")
		} else {
			assertf("(or %s)", strings.Join(alts, " "))
		}
	}
	// condition variables
	condLocs := map[string]bool{}
	for _, e := range events {
		if e.Kind == "enq" {
			condLocs[e.Loc] = true
		}
	}
	for loc := range condLocs {
		var ws, bs, ss []*Event
		for _, e := range events {
			if e.Loc != loc {
				continue
			}
			switch e.Kind {
			case "enq":
				ws = append(ws, e)
			case "bcast":
				bs = append(bs, e)
			case "signal":
				ss = append(ss, e)
			}
		}
		if partial != nil {
			// notifications may come from threads not chosen yet (ghost alternative); the Signal
			// encoding is not relaxed (no pruning there)
			if len(ss) == 0 {
				for _, e := range ws {
					if e.Peer == nil {
						for _, b := range bs {
							assertf("%s", lt(b, e))
						}
						continue
					}
					alts := ghostBefore(e.Peer, nil)
					for _, b := range bs {
						alts = append(alts, fmt.Sprintf("(and %s %s)", lt(e, b), lt(b, e.Peer)))
					}
					if len(alts) == 0 {
						assertf("false")
					} else {
						assertf("(or %s)", strings.Join(alts, " "))
					}
				}
			}
			continue
		}
		if len(ss) == 0 {
			for _, e := range ws {
				if e.Peer != nil { // woken: some broadcast after the ticket and before the wake-up
					var alts []string
					for _, b := range bs {
						alts = append(alts, fmt.Sprintf("(and %s %s)", lt(e, b), lt(b, e.Peer)))
					}
					if len(alts) == 0 {
						assertf("false")
					} else {
						assertf("(or %s)", strings.Join(alts, " "))
					}
				} else { // never woken: every broadcast precedes the ticket
					for _, b := range bs {
						assertf("%s", lt(b, e))
					}
				}
			}
			continue
		}
		// with Signal: wt_w = instant of the event that wakes waiter w (N+1: never); a signal wakes
		// the pending waiter with the oldest ticket (sync.Cond's notify list is FIFO)
		never := len(events) + 1
		for _, w := range ws {
			fmt.Fprintf(&sb, "(declare-const wt%d Int)\n", w.ID)
		}
		for _, sg := range ss {
			fmt.Fprintf(&sb, "(declare-const tgt%d Int)\n", sg.ID)
		}
		for _, w := range ws {
			if w.Peer != nil {
				assertf("(and (< %s wt%d) (< wt%d %s))", ex.clk(w), w.ID, w.ID, ex.clk(w.Peer))
				var alts []string
				for _, b := range bs {
					alts = append(alts, fmt.Sprintf("(= wt%d %s)", w.ID, ex.clk(b)))
				}
				for _, sg := range ss {
					alts = append(alts, fmt.Sprintf("(and (= wt%d %s) (= tgt%d %d))", w.ID, ex.clk(sg), sg.ID, w.ID))
				}
				assertf("(or %s)", strings.Join(alts, " "))
				for _, b := range bs {
					assertf("(not (and %s (< %s wt%d)))", lt(w, b), ex.clk(b), w.ID)
				}
			} else {
				assertf("(= wt%d %d)", w.ID, never)
				for _, b := range bs {
					assertf("%s", lt(b, w))
				}
			}
		}
		for _, sg := range ss {
			var alts []string
			var none []string
			for _, w := range ws {
				none = append(none, fmt.Sprintf("(=> %s (< wt%d %s))", lt(w, sg), w.ID, ex.clk(sg)))
			}
			alts = append(alts, fmt.Sprintf("(and (= tgt%d 0) %s)", sg.ID, strings.Join(none, " ")))
			for _, w := range ws {
				conj := []string{fmt.Sprintf("(= tgt%d %d)", sg.ID, w.ID), lt(w, sg), fmt.Sprintf("(= wt%d %s)", w.ID, ex.clk(sg))}
				for _, w2 := range ws {
					if w2 != w {
						conj = append(conj, fmt.Sprintf("(=> %s (< wt%d %s))", lt(w2, w), w2.ID, ex.clk(sg)))
					}
				}
				alts = append(alts, "(and "+strings.Join(conj, " ")+")")
			}
			assertf("(or %s)", strings.Join(alts, " "))
		}
	}
	// contexts cancelled by the environment
	for _, e := range events {
		var cancels []*Event
		for _, k := range events {
			if k.Kind == "cancel" && (k.Loc == e.Loc || (e.Kind == "park" && strings.Contains(","+e.Ctxs+",", ","+k.Loc+","))) {
				cancels = append(cancels, k)
			}
		}
		switch {
		case (e.Kind == "ctxerr" && e.Aux == "cancelled" || e.Kind == "selwake" && e.Aux == "cancel") && partial != nil && ex.envUnchosen(partial):
			// the cancelling environment thread is not chosen yet
		case e.Kind == "ctxerr" && e.Aux == "cancelled", e.Kind == "selwake" && e.Aux == "cancel":
			var alts []string
			for _, k := range cancels {
				alts = append(alts, lt(k, e))
			}
			if len(alts) == 0 {
				assertf("false")
			} else {
				assertf("(or %s)", strings.Join(alts, " "))
			}
		case e.Kind == "ctxerr" && e.Aux == "live":
			for _, k := range cancels {
				assertf("%s", lt(e, k))
			}
		case e.Kind == "park" && e.Peer == nil && e.Ctxs != "":
			if len(cancels) > 0 {
				assertf("false") // a cancelled context would wake the parked select
			}
		}
	}
	// selects, hand-off sends, closes, timers
	for _, e := range events {
		switch e.Kind {
		case "selwake":
			park := e.Peer
			if partial != nil {
				// the enabling close / send may belong to a thread not chosen yet: ghost alternative
				if e.Aux == "closed" || e.Aux == "recv" {
					alts := ghostBefore(e, func(u int) bool { return u != e.Thread })
					for _, k := range events {
						if e.Aux == "closed" && k.Kind == "close" && k.Loc == e.Loc {
							alts = append(alts, lt(k, e))
						}
						if e.Aux == "recv" && k.Kind == "send" && k.Aux == "ok" && k.Loc == e.Loc && k.Thread != e.Thread {
							alts = append(alts, lt(k, e))
						}
					}
					if len(alts) == 0 {
						assertf("false")
					} else {
						assertf("(or %s)", strings.Join(alts, " "))
					}
				}
				continue
			}
			switch e.Aux {
			case "closed":
				var alts []string
				for _, k := range events {
					if k.Kind == "close" && k.Loc == e.Loc {
						alts = append(alts, lt(k, e))
					}
				}
				if len(alts) == 0 {
					assertf("false")
				} else {
					assertf("(or %s)", strings.Join(alts, " "))
				}
			case "recv":
				// rendez-vous with exactly one successful send that follows the park; the receiver
				// is released by that send (no other receive of this channel in between)
				var alts []string
				for _, s := range events {
					if s.Kind == "send" && s.Aux == "ok" && s.Loc == e.Loc && s.Thread != e.Thread {
						if s.Cap > 0 {
							// buffered: the value only has to be in the buffer when the receiver takes it
							alts = append(alts, fmt.Sprintf("(and %s (= %s %s) (= %s %s))", lt(s, e), emit(s.WV), emit(e.WV), "sndto"+fmt.Sprint(s.ID), fmt.Sprint(e.ID)))
						} else {
							alts = append(alts, fmt.Sprintf("(and %s %s (= %s %s) (= %s %s))", lt(park, s), lt(s, e), emit(s.WV), emit(e.WV), "sndto"+fmt.Sprint(s.ID), fmt.Sprint(e.ID)))
						}
					}
				}
				if len(alts) == 0 {
					assertf("false")
				} else {
					assertf("(or %s)", strings.Join(alts, " "))
				}
			case "timer", "cancel":
				// environment event: may fire at any time after creation (over-approximation)
			}
		}
	}
	for _, s := range events {
		if s.Kind != "send" {
			continue
		}
		if partial != nil && (s.Aux == "ok" || s.Cap > 0) {
			continue // the receiver / the earlier send may belong to a thread not chosen yet
		}
		// receivers parked on this channel
		var parks []*Event
		for _, p := range events {
			if p.Kind == "park" && p.Thread != s.Thread && strings.Contains(","+p.Loc+",", ","+s.Loc+",") {
				parks = append(parks, p)
			}
		}
		if s.Cap > 0 {
			// buffered channel (capacity 1 modelled): the send succeeds iff the buffer is empty, i.e.
			// every earlier successful send has already been received
			if s.Cap != 1 {
				assertf("false")
				continue
			}
			var others []*Event
			for _, o := range events {
				if o.Kind == "send" && o.Aux == "ok" && o.Loc == s.Loc && o != s {
					others = append(others, o)
				}
			}
			recvOf := func(o *Event) string { // timestamp at which o's value is taken out (0 = never)
				var alts []string
				for _, w := range events {
					if w.Kind == "selwake" && w.Aux == "recv" && w.Loc == o.Loc {
						alts = append(alts, fmt.Sprintf("(and (= sndto%d %d) %s)", o.ID, w.ID, lt(w, s)))
					}
				}
				if len(alts) == 0 {
					return "false"
				}
				return "(or " + strings.Join(alts, " ") + ")"
			}
			if s.Aux == "ok" {
				var alts []string
				alts = append(alts, fmt.Sprintf("(= sndto%d 0)", s.ID)) // value may stay in the buffer forever
				for _, w := range events {
					if w.Kind == "selwake" && w.Aux == "recv" && w.Loc == s.Loc {
						alts = append(alts, fmt.Sprintf("(= sndto%d %d)", s.ID, w.ID))
					}
				}
				assertf("(or %s)", strings.Join(alts, " "))
				for _, o := range others {
					assertf("(or %s %s)", lt(s, o), recvOf(o))
				}
			} else {
				var alts []string
				for _, o := range others {
					alts = append(alts, fmt.Sprintf("(and %s (not %s))", lt(o, s), recvOf(o)))
				}
				if len(alts) == 0 {
					assertf("false")
				} else {
					assertf("(or %s)", strings.Join(alts, " "))
				}
			}
			continue
		}
		if s.Aux == "ok" {
			var alts []string
			for _, p := range parks {
				if p.Peer != nil && p.Peer.Aux == "recv" && p.Peer.Loc == s.Loc {
					alts = append(alts, fmt.Sprintf("(and (= sndto%d %d) %s %s)", s.ID, p.Peer.ID, lt(p, s), lt(s, p.Peer)))
				}
			}
			if len(alts) == 0 {
				assertf("false")
			} else {
				assertf("(or %s)", strings.Join(alts, " "))
			}
		} else {
			// failed non-blocking send: no receiver is parked at that instant
			for _, p := range parks {
				if p.Peer == nil {
					assertf("%s", lt(s, p)) // receiver parked forever would have taken it
				} else {
					assertf("(or %s %s)", lt(s, p), lt(p.Peer, s))
				}
			}
		}
	}
	// a receiver that stays parked forever: no enabling event after it parked
	for _, p := range events {
		if p.Kind != "park" || p.Peer != nil {
			continue
		}
		for _, k := range events {
			if k.Kind == "close" && strings.Contains(","+p.Loc+",", ","+k.Loc+",") {
				assertf("false") // a closed channel would wake it
			}
			if k.Kind == "send" && k.Aux == "ok" && k.Cap > 0 && strings.Contains(","+p.Loc+",", ","+k.Loc+",") {
				assertf("(not (= sndto%d 0))", k.ID) // a buffered value nobody takes would wake it
			}
		}
	}
	// each successful send serves a distinct receiver
	var oks []*Event
	for _, s := range events {
		if s.Kind == "send" && s.Aux == "ok" {
			oks = append(oks, s)
		}
	}
	for i := 0; i < len(oks); i++ {
		for j := i + 1; j < len(oks); j++ {
			if oks[i].Loc == oks[j].Loc {
				assertf("(not (= sndto%d sndto%d))", oks[i].ID, oks[j].ID)
			}
		}
	}
	// obligations of this combination; their definitions (and those of the classifier predicates)
	// are emitted into the base so that they survive the push/pop around each obligation
	var asserts []recAssert
	for _, p := range paths {
		if p != nil {
			asserts = append(asserts, p.Asserts...)
		}
	}
	negName := map[int]string{}
	for i, a := range asserts {
		if !a.Cond.IsTrue() {
			negName[i] = emit(ex.ts.Not(a.Cond))
		}
	}
	for _, p := range paths {
		if p != nil {
			for _, cp := range p.Classes {
				emit(cp.T)
			}
		}
	}
	base := sb.String()
	if partial != nil {
		solver.Send("(reset)\n" + base)
		t0 := time.Now()
		ans := solver.CheckSat(ex.sess.oblTO)
		if d := os.Getenv("VERIF_DUMP_COMBO"); d != "" && ans == "unsat" {
			os.MkdirAll(d, 0755)
			var desc strings.Builder
			for _, p := range combo {
				if p != nil {
					fmt.Fprintf(&desc, "; path %v %s\n", p.Trace, p.End)
				}
			}
			for _, e := range events {
				fmt.Fprintf(&desc, "; c%d t%d %s %s [%s] @%s\n", e.ID, e.Thread, e.Kind, e.Loc, e.Aux, e.Pos)
			}
			os.WriteFile(fmt.Sprintf("%s/%s_partial_%v_n%d_%d.smt2", d, ex.h.Name, ex.ctl.trace, len(combo), comboNo), []byte(desc.String()+base+"(check-sat)\n"), 0644)
		}
		res.Queries++
		res.PartialQueries++
		res.SolverTime += time.Since(t0)
		return ans != "unsat" // unknown / error: keep the prefix (no pruning)
	}
	// feasibility of the combination (vacuity witness) and the assertions
	if d := os.Getenv("VERIF_DUMP_COMBO"); d != "" {
		os.MkdirAll(d, 0755)
		var desc strings.Builder
		for _, e := range events {
			fmt.Fprintf(&desc, "; c%d t%d %s %s [%s] @%s\n", e.ID, e.Thread, e.Kind, e.Loc, e.Aux, e.Pos)
		}
		os.WriteFile(fmt.Sprintf("%s/%s_combo%d.smt2", d, ex.h.Name, comboNo), []byte(desc.String()+base+"(check-sat)\n"), 0644)
	}
	solver.Send("(reset)\n" + base)
	t0 := time.Now()
	ans := solver.CheckSat(ex.sess.oblTO)
	res.Queries++
	res.SolverTime += time.Since(t0)
	if ans == "unsat" {
		return false // this combination of control paths has no consistent schedule
	}
	if ans != "sat" {
		res.Inconclusive = append(res.Inconclusive, fmt.Sprintf("%s: feasibility of a thread-path combination: solver answered %s", ex.h.Name, firstLine(ans)))
		return false
	}
	res.FeasibleCombos++
	if os.Getenv("VERIF_DEBUG_PRUNE") != "" {
		var tr []string
		for _, p := range combo {
			if p != nil {
				tr = append(tr, fmt.Sprint(p.Trace)+p.End)
			} else {
				tr = append(tr, "-")
			}
		}
		logf("    feasible combo final=%v %v\n", ex.ctl.trace, tr)
	}
	if ex.h.Opts["race"] == "1" {
		ex.raceQueries(solver, r, events, paths)
	}
	for _, p := range paths {
		if p != nil {
			for _, l := range p.Reach {
				res.Reaches[l]++
			}
		}
	}
	for ai, a := range asserts {
		st := stat(a.ID, a.Kind)
		st.Reached++
		st.Posed++
		st.Pos[a.Pos] = true
		if a.Cond.IsTrue() {
			st.Discharged++
			st.Trivial++
			st.PathDependent++
			continue
		}
		st.Nontrivial++
		var defs strings.Builder
		n := negName[ai]
		blockers := ""
		violated := false
		for iter := 0; iter < 8; iter++ {
			solver.Send("(push 1)\n" + defs.String() + "(assert " + n + ")\n" + blockers)
			t1 := time.Now()
			ans := solver.CheckSat(ex.sess.oblTO)
			res.Queries++
			res.SolverTime += time.Since(t1)
			st.SolverMs += float64(time.Since(t1)) / 1e6
			if ans == "unsat" {
				solver.Send("(pop 1)\n")
				if !violated {
					st.Discharged++
				}
				break
			}
			if ans != "sat" {
				if !solver.dead {
					solver.Send("(pop 1)\n")
				}
				res.Inconclusive = append(res.Inconclusive, fmt.Sprintf("%s: obligation %s: solver answered %s", ex.h.Name, a.ID, firstLine(ans)))
				break
			}
			violated = true
			cand := ex.concCandidate(solver, r, a, events, paths)
			solver.Send("(pop 1)\n")
			if st.Sample == "" {
				st.Sample = fmt.Sprint(cand.ModelSummary())
			}
			k := matchKnown(ex.sess.known, cand)
			cand.Known = k
			res.Candidates = append(res.Candidates, cand)
			if k == nil {
				break
			}
			// block the known class and look for another violation
			var lits []string
			ok := true
			for name, want := range k.Class {
				var ct *Term
				for _, p := range paths {
					if p == nil {
						continue
					}
					for _, cp := range p.Classes {
						if cp.Name == name {
							ct = cp.T
						}
					}
				}
				if ct == nil {
					ok = false
					break
				}
				cn := r.Ref(ct)
				defs.WriteString(r.Take())
				if want {
					lits = append(lits, cn)
				} else {
					lits = append(lits, "(not "+cn+")")
				}
			}
			if !ok {
				break
			}
			if len(lits) == 0 {
				break
			}
			blockers += "(assert (not (and " + strings.Join(lits, " ") + ")))\n"
		}
	}
	return true
}

// initTerm returns the initial (post-setup) value of a shared location as a term.
func (c *ConcState) initTerm(ex *Exec, loc string, s Sort) (*Term, bool) {
	v, ok := c.initVals[loc]
	if !ok {
		return nil, false
	}
	switch x := v.(type) {
	case *Term:
		return x, true
	default:
		rc := refCand{Key: ex.refKey(x), V: x}
		return ex.ts.Int(SInt(32, false), uint64(ex.refID(rc))), true
	}
}

func (ex *Exec) concCandidate(solver *Solver, r *Renderer, a recAssert, events []*Event, paths []*ThreadPath) *Candidate {
	c := ex.conc
	cand := &Candidate{Property: ex.h.Property, Harness: ex.h.Name, Pkg: ex.h.Pkg, OblID: a.ID, Kind: a.Kind, Pos: a.Pos, Msg: a.Msg,
		Model: map[string]ModelVal{}, Choices: map[string]int{}, Classes: map[string]bool{}, Mode: r.mode, Conc: &ConcCex{}}
	// schedule
	names := make([]string, len(events))
	for i, e := range events {
		names[i] = ex.clk(e)
	}
	vals := solver.GetValues(names)
	type ev struct {
		e *Event
		t int
	}
	var order []ev
	for _, e := range events {
		var t int
		fmt.Sscanf(strings.TrimSpace(vals[ex.clk(e)]), "%d", &t)
		order = append(order, ev{e, t})
	}
	sort.Slice(order, func(i, j int) bool { return order[i].t < order[j].t })
	for _, o := range order {
		e := o.e
		tn := "final"
		if e.Thread < len(c.threads) {
			tn = c.threads[e.Thread].Name
		}
		desc := fmt.Sprintf("%s: %s %s", tn, e.Kind, e.Loc)
		if e.Aux != "" {
			desc += " [" + e.Aux + "]"
		}
		if e.Pos != "" && e.Pos != "?" {
			desc += " @" + e.Pos
		}
		cand.Conc.Order = append(cand.Conc.Order, desc)
	}
	// inputs
	var nn []string
	byName := map[string]Nondet{}
	for _, nd := range ex.nondets {
		if n, ok := r.emitted[nd.T.ID]; ok {
			nn = append(nn, n)
			byName[n] = nd
		}
	}
	mv := solver.GetValues(nn)
	for n, raw := range mv {
		nd := byName[n]
		if v, ok := parseModelValue(raw, nd.Sort, r.mode); ok {
			cand.Model[nd.Name] = v
		}
	}
	for _, p := range paths {
		if p == nil {
			continue
		}
		for _, cp := range p.Classes {
			n, ok := r.emitted[cp.T.ID]
			if !ok {
				if cp.T.IsConst() {
					cand.Classes[cp.Name] = cp.T.IsTrue()
				}
				continue
			}
			v := solver.GetValues([]string{n})
			cand.Classes[cp.Name] = strings.TrimSpace(v[n]) == "true"
		}
	}
	// schedule classes decided by the combination of control paths (known findings are keyed by them)
	bcastBeforeEnq, sendFailed, anySend, parkedForever, waitForever := false, false, false, false, false
	wokenThenLost := false // a thread that was woken at least once (Cond wake-up / select wake-up) and later blocks forever
	for _, e := range events {
		if (e.Kind == "enq" || e.Kind == "park") && e.Peer == nil {
			for _, f := range events {
				if f.Thread == e.Thread && f.Idx < e.Idx && (f.Kind == "enq" || f.Kind == "park") && f.Peer != nil {
					wokenThenLost = true
				}
			}
		}
	}
	for _, e := range events {
		switch {
		case e.Kind == "enq" && e.Peer == nil:
			waitForever = true
			for _, b := range events {
				if b.Kind == "bcast" && b.Loc == e.Loc {
					bcastBeforeEnq = true
				}
			}
		case e.Kind == "send":
			anySend = true
			if e.Aux == "fail" {
				sendFailed = true
			}
		case e.Kind == "park" && e.Peer == nil:
			parkedForever = true
		}
	}
	cand.Classes["sched:broadcast_before_waiter_enqueued"] = bcastBeforeEnq
	cand.Classes["sched:cond_waiter_never_woken"] = waitForever
	cand.Classes["sched:handoff_send_failed"] = sendFailed
	cand.Classes["sched:no_handoff_attempted"] = parkedForever && !anySend
	cand.Classes["sched:select_parked_forever"] = parkedForever
	cand.Classes["sched:woken_then_blocked_forever"] = wokenThenLost
	for i, p := range paths {
		if p != nil && i < len(c.threads)-1 {
			cand.Choices["path:"+c.threads[i+1].Name] = 0
			cand.Conc.Order = append(cand.Conc.Order, fmt.Sprintf("[%s ends: %s]", c.threads[i+1].Name, p.End))
		}
	}
	cand.Replay = "confirmed"
	cand.ReplayOut = "schedule found by the solver for the event-order encoding of the real SSA (no native scheduler control available)\n" + strings.Join(cand.Conc.Order, "\n") + "\n"
	return cand
}

// raceQueries: predictive data-race analysis.  Two conflicting accesses (same location, different
// threads, at least one write, not both atomic) race iff some consistent schedule makes them
// adjacent (nothing orders one before the other through locks or atomics).
func (ex *Exec) raceQueries(solver *Solver, r *Renderer, events []*Event, paths []*ThreadPath) {
	c := ex.conc
	res := ex.sess.res
	isW := func(e *Event) bool { return e.Kind == "w" || e.Kind == "rmw" || e.Kind == "mapw" }
	isAcc := func(e *Event) bool { return isW(e) || e.Kind == "r" || e.Kind == "mapr" }
	finalT := len(c.threads)
	type pair struct{ a, b *Event }
	var pairs []pair
	for i, a := range events {
		if !isAcc(a) || a.Thread >= finalT {
			continue
		}
		for _, b := range events[i+1:] {
			if !isAcc(b) || b.Thread >= finalT || a.Thread == b.Thread || a.Loc != b.Loc {
				continue
			}
			if !isW(a) && !isW(b) {
				continue
			}
			if a.Atomic && b.Atomic {
				continue
			}
			pairs = append(pairs, pair{a, b})
		}
	}
	if len(pairs) == 0 {
		return
	}
	res.RacePairs += len(pairs)
	st := ex.sess.stat("data-race-free", "race")
	st.Reached++
	st.Posed++
	st.Nontrivial++
	st.Pos["(all conflicting access pairs)"] = true
	var alts []string
	for _, p := range pairs {
		alts = append(alts, fmt.Sprintf("(= %s (+ %s 1))", ex.clk(p.a), ex.clk(p.b)), fmt.Sprintf("(= %s (+ %s 1))", ex.clk(p.b), ex.clk(p.a)))
	}
	solver.Send("(push 1)\n(assert (or " + strings.Join(alts, " ") + "))\n")
	t0 := time.Now()
	ans := solver.CheckSat(ex.sess.oblTO)
	res.Queries++
	res.SolverTime += time.Since(t0)
	st.SolverMs += float64(time.Since(t0)) / 1e6
	if ans == "unsat" {
		solver.Send("(pop 1)\n")
		st.Discharged++
		return
	}
	if ans != "sat" {
		if !solver.dead {
			solver.Send("(pop 1)\n")
		}
		res.Inconclusive = append(res.Inconclusive, fmt.Sprintf("%s: race query: solver answered %s", ex.h.Name, firstLine(ans)))
		return
	}
	// which pair is adjacent in the model?
	var names []string
	for _, p := range pairs {
		names = append(names, ex.clk(p.a), ex.clk(p.b))
	}
	vals := solver.GetValues(names)
	var racy *pair
	for i := range pairs {
		var x, y int
		fmt.Sscanf(strings.TrimSpace(vals[ex.clk(pairs[i].a)]), "%d", &x)
		fmt.Sscanf(strings.TrimSpace(vals[ex.clk(pairs[i].b)]), "%d", &y)
		if x-y == 1 || y-x == 1 {
			racy = &pairs[i]
			break
		}
	}
	a := recAssert{ID: "data-race-free", Kind: "race", Pos: "?", Msg: "data race"}
	if racy != nil {
		a.Pos = racy.a.Pos + " / " + racy.b.Pos
		a.Msg = fmt.Sprintf("data race on %s: %s %s at %s [%s]  vs  %s %s at %s [%s]", racy.a.Loc, c.threads[racy.a.Thread].Name, racy.a.Kind, racy.a.Pos, strings.Join(racy.a.Held, ","),
			c.threads[racy.b.Thread].Name, racy.b.Kind, racy.b.Pos, strings.Join(racy.b.Held, ","))
	}
	cand := ex.concCandidate(solver, r, a, events, paths)
	solver.Send("(pop 1)\n")
	if racy != nil {
		cand.Classes["race_site:"+siteOf(racy.a.Pos)+"|"+siteOf(racy.b.Pos)] = true
	}
	if st.Sample == "" {
		st.Sample = a.Msg
	}
	cand.Known = matchKnown(ex.sess.known, cand)
	res.Candidates = append(res.Candidates, cand)
}

// siteOf reduces "file.go:123" to "file.go" (known findings must not depend on line numbers).
func siteOf(pos string) string {
	if i := strings.LastIndex(pos, ":"); i >= 0 {
		return pos[:i]
	}
	return pos
}

// raceBySites: one solver query per distinct pair of conflicting access sites (location, kind,
// locks held) of two different threads, posed on a representative combination of control paths.
func (ex *Exec) raceBySites(final *ThreadPath, finalPC []*Term) {
	c := ex.conc
	res := ex.sess.res
	nThreads := len(c.threads) - 1
	isW := func(e *Event) bool { return e.Kind == "w" || e.Kind == "rmw" || e.Kind == "mapw" }
	isAcc := func(e *Event) bool { return !e.Init && (isW(e) || e.Kind == "r" || e.Kind == "mapr") }
	type site struct {
		path *ThreadPath
		ev   *Event
	}
	sites := make([]map[string]site, nThreads+1)
	for t := 1; t <= nThreads; t++ {
		sites[t] = map[string]site{}
		for _, p := range c.threads[t].Paths {
			for _, e := range p.Events {
				if !isAcc(e) {
					continue
				}
				k := fmt.Sprintf("%s|%s|%v|%s", e.Kind, e.Loc, e.Atomic, strings.Join(e.Held, ","))
				if _, ok := sites[t][k]; !ok {
					sites[t][k] = site{p, e}
				}
			}
		}
	}
	st := ex.sess.stat("data-race-free", "race")
	for _, l := range final.Reach {
		res.Reaches[l]++
	}
	if ex.h.Opts["atomic"] != "" {
		ex.lostUpdateQueries(final)
		if ex.h.Opts["atomic"] == "only" {
			return
		}
	}
	// spawnPath: a path of thread par that starts goroutine thread ch (nil if none)
	spawnPath := func(par, ch int) *ThreadPath {
		for _, p := range c.threads[par].Paths {
			for _, e := range p.Events {
				if e.Kind == "go" && e.Aux == fmt.Sprint(ch) {
					return p
				}
			}
		}
		return nil
	}
	spawns := func(p *ThreadPath, ch int) bool {
		for _, e := range p.Events {
			if e.Kind == "go" && e.Aux == fmt.Sprint(ch) {
				return true
			}
		}
		return false
	}
	for t1 := 1; t1 <= nThreads; t1++ {
		for t2 := t1 + 1; t2 <= nThreads; t2++ {
			// goroutines started by the threads take part as well (one level: children of harness threads)
			if (c.threads[t1].Parent != 0 && c.threads[c.threads[t1].Parent].Parent != 0) || (c.threads[t2].Parent != 0 && c.threads[c.threads[t2].Parent].Parent != 0) {
				continue
			}
			k1s := make([]string, 0, len(sites[t1]))
			for k := range sites[t1] {
				k1s = append(k1s, k)
			}
			sort.Strings(k1s)
			k2s := make([]string, 0, len(sites[t2]))
			for k := range sites[t2] {
				k2s = append(k2s, k)
			}
			sort.Strings(k2s)
			for _, ka := range k1s {
				for _, kb := range k2s {
					a, b := sites[t1][ka], sites[t2][kb]
					if a.ev.Loc != b.ev.Loc || (!isW(a.ev) && !isW(b.ev)) || (a.ev.Atomic && b.ev.Atomic) {
						continue
					}
					combo := make([]*ThreadPath, nThreads)
					for t := 1; t <= nThreads; t++ {
						if c.threads[t].Parent == 0 && len(c.threads[t].Paths) > 0 {
							combo[t-1] = c.threads[t].Paths[0]
						}
					}
					combo[t1-1], combo[t2-1] = a.path, b.path
					// a racing goroutine needs a parent path that starts it
					okCombo := true
					for _, ch := range []int{t1, t2} {
						par := c.threads[ch].Parent
						if par == 0 {
							continue
						}
						if par == t1 || par == t2 {
							if !spawns(combo[par-1], ch) {
								okCombo = false
							}
							continue
						}
						if sp := spawnPath(par, ch); sp != nil {
							combo[par-1] = sp
						} else {
							okCombo = false
						}
					}
					if !okCombo {
						continue
					}
					res.RacePairs++
					st.Reached++
					st.Posed++
					st.Nontrivial++
					st.Pos[siteOf(a.ev.Pos)+" / "+siteOf(b.ev.Pos)] = true
					res.ConcCombos++
					ex.raceCombo(combo, final, a.ev, b.ev, st)
				}
			}
		}
	}
}

// raceCombo poses the adjacency query for two specific events on one combination.
func (ex *Exec) raceCombo(combo []*ThreadPath, final *ThreadPath, a, b *Event, st *OblStat) {
	c := ex.conc
	res := ex.sess.res
	var events []*Event
	for _, p := range combo {
		if p != nil {
			events = append(events, p.Events...)
		}
	}
	res.Events += len(events)
	var sb strings.Builder
	for _, e := range events {
		fmt.Fprintf(&sb, "(declare-const %s Int)\n", ex.clk(e))
	}
	lt := func(x, y *Event) string { return "(< " + ex.clk(x) + " " + ex.clk(y) + ")" }
	names := make([]string, len(events))
	for i, e := range events {
		names[i] = ex.clk(e)
		fmt.Fprintf(&sb, "(assert (and (<= 1 %s) (<= %s %d)))\n", ex.clk(e), ex.clk(e), len(events))
	}
	if len(events) > 1 {
		fmt.Fprintf(&sb, "(assert (distinct %s))\n", strings.Join(names, " "))
	}
	for _, p := range combo {
		if p == nil {
			continue
		}
		for i := 1; i < len(p.Events); i++ {
			fmt.Fprintf(&sb, "(assert %s)\n", lt(p.Events[i-1], p.Events[i]))
		}
	}
	// a goroutine starts after the go statement that creates it
	for ti, p := range combo {
		if p == nil || len(p.Events) == 0 || c.threads[ti+1].Parent == 0 {
			continue
		}
		if pp := combo[c.threads[ti+1].Parent-1]; pp != nil {
			for _, e := range pp.Events {
				if e.Kind == "go" && e.Aux == fmt.Sprint(ti+1) {
					fmt.Fprintf(&sb, "(assert %s)\n", lt(e, p.Events[0]))
				}
			}
		}
	}
	// mutual exclusion of critical sections
	var secs []*lockSection
	for ti, p := range combo {
		if p == nil {
			continue
		}
		open := map[string][]*lockSection{}
		for _, e := range p.Events {
			switch e.Kind {
			case "lock", "rlock":
				s := &lockSection{thread: ti, lock: e, read: e.Kind == "rlock"}
				open[e.Loc] = append(open[e.Loc], s)
				secs = append(secs, s)
			case "unlock", "runlock":
				if l := open[e.Loc]; len(l) > 0 {
					l[len(l)-1].unl = e
					open[e.Loc] = l[:len(l)-1]
				}
			}
		}
	}
	for i := 0; i < len(secs); i++ {
		for j := i + 1; j < len(secs); j++ {
			x, y := secs[i], secs[j]
			if x.lock.Loc != y.lock.Loc || x.thread == y.thread || (x.read && y.read) {
				continue
			}
			var alts []string
			if x.unl != nil {
				alts = append(alts, lt(x.unl, y.lock))
			}
			if y.unl != nil {
				alts = append(alts, lt(y.unl, x.lock))
			}
			if len(alts) == 0 {
				sb.WriteString("(assert false)\n")
			} else {
				fmt.Fprintf(&sb, "(assert (or %s))\n", strings.Join(alts, " "))
			}
		}
	}
	fmt.Fprintf(&sb, "(assert (or (= %s (+ %s 1)) (= %s (+ %s 1))))\n", ex.clk(a), ex.clk(b), ex.clk(b), ex.clk(a))
	solver := ex.sess.solver
	solver.Send("(reset)\n" + sb.String())
	t0 := time.Now()
	ans := solver.CheckSat(ex.sess.oblTO)
	res.Queries++
	res.SolverTime += time.Since(t0)
	st.SolverMs += float64(time.Since(t0)) / 1e6
	if ans == "unsat" {
		st.Discharged++
		return
	}
	if ans != "sat" {
		res.Inconclusive = append(res.Inconclusive, fmt.Sprintf("%s: race query: solver answered %s", ex.h.Name, firstLine(ans)))
		return
	}
	ra := recAssert{ID: "data-race-free", Kind: "race", Pos: a.Pos + " / " + b.Pos}
	ra.Msg = fmt.Sprintf("data race on %s: %s %s at %s [%s]  vs  %s %s at %s [%s]", a.Loc, c.threads[a.Thread].Name, a.Kind, a.Pos, strings.Join(a.Held, ","),
		c.threads[b.Thread].Name, b.Kind, b.Pos, strings.Join(b.Held, ","))
	r := NewRenderer(ex.h.Mode)
	cand := ex.concCandidate(solver, r, ra, events, combo)
	sa, sb2 := siteOf(a.Pos), siteOf(b.Pos)
	if sb2 < sa {
		sa, sb2 = sb2, sa
	}
	cand.Classes = map[string]bool{"race_site:" + sa + "|" + sb2: true}
	if st.Sample == "" {
		st.Sample = ra.Msg
	}
	cand.Known = matchKnown(ex.sess.known, cand)
	res.Candidates = append(res.Candidates, cand)
}

func (ex *Exec) pruneLog(e *Event, why string) {
	if os.Getenv("VERIF_DEBUG_PRUNE") != "" {
		logf("    prune: %s %s [%s] @%s thread %d: %s\n", e.Kind, e.Loc, e.Aux, e.Pos, e.Thread, why)
	}
}

// envUnchosen: some environment (context-cancelling) thread is among the threads not chosen yet.
func (ex *Exec) envUnchosen(partial map[int]bool) bool {
	for u := range partial {
		if u < len(ex.conc.threads) && ex.conc.threads[u] != nil && ex.conc.threads[u].EnvCancel != "" {
			return true
		}
	}
	return false
}

// maxFixPasses bounds the passes of the shared-location fix point (writers and reference candidates
// per location); not converging within the bound is reported as unsupported (INCONCLUSIVE).
const maxFixPasses = 12

// lostUpdateQueries: predictive atomicity analysis (harness option atomic=1|only, used together with
// race=1).  A write w of thread t to location X whose value depends on a read r of the SAME location
// made earlier by t outside w's critical section (the lock was released in between, or there is
// none) is a read-modify-write that is not atomic; it loses an update iff some other thread can write
// X between r and w.  One solver query per (r, w, w') site triple asks for a schedule consistent with
// program order and lock exclusion with clk(r) < clk(w') < clk(w); sat = a concrete interleaving in
// which w publishes a value computed from stale state.  Obligation id: updates-are-atomic.
func (ex *Exec) lostUpdateQueries(final *ThreadPath) {
	c := ex.conc
	res := ex.sess.res
	nThreads := len(c.threads) - 1
	st := ex.sess.stat("updates-are-atomic", "atomicity")
	sameSection := func(p *ThreadPath, r, w *Event) bool {
		for _, h := range r.Held {
			if strings.HasPrefix(h, "r:") {
				continue // a shared (read) lock does not exclude the other thread's read-modify-write
			}
			held := false
			for _, h2 := range w.Held {
				if h2 == h {
					held = true
				}
			}
			if !held {
				continue
			}
			lockLoc := strings.TrimPrefix(h, "r:")
			released := false
			for i := r.Idx + 1; i < w.Idx && i < len(p.Events); i++ {
				e := p.Events[i]
				if (e.Kind == "unlock" || e.Kind == "runlock") && e.Loc == lockLoc {
					released = true
				}
			}
			if !released {
				return true
			}
		}
		return false
	}
	seen := map[string]bool{}
	for t := 1; t <= nThreads; t++ {
		if c.threads[t].Parent != 0 {
			continue
		}
		for _, p := range c.threads[t].Paths {
			for _, w := range p.Events {
				if verboseLog && w.Kind == "w" {
					var ds []string
					for _, r := range w.DepReads {
						ds = append(ds, fmt.Sprintf("%s@%s", r.Loc, r.Pos))
					}
					logf("    atomicity: thread %d write %s @%s held=%v deps=%v\n", t, w.Loc, w.Pos, w.Held, ds)
				}
				if (w.Kind != "w" && w.Kind != "rmw") || len(w.DepReads) == 0 {
					continue
				}
				for _, r := range w.DepReads {
					if r.Loc != w.Loc || r.Idx >= w.Idx {
						continue
					}
					_ = sameSection // the lock-exclusion constraints of the query decide (a writer that does not take the lock can still interleave)
					for u := 1; u <= nThreads; u++ {
						if u == t || c.threads[u].Parent != 0 {
							continue
						}
						for _, q := range c.threads[u].Paths {
							for _, w2 := range q.Events {
								if (w2.Kind != "w" && w2.Kind != "rmw") || w2.Loc != w.Loc {
									continue
								}
								key := fmt.Sprintf("%d|%s|%s|%s|%d|%s", t, siteOf(r.Pos)+r.Pos, w.Pos, w.Loc, u, w2.Pos)
								if seen[key] {
									continue
								}
								seen[key] = true
								st.Reached++
								st.Posed++
								st.Nontrivial++
								st.Pos[siteOf(r.Pos)+" / "+siteOf(w.Pos)] = true
								combo := make([]*ThreadPath, nThreads)
								for x := 1; x <= nThreads; x++ {
									if c.threads[x].Parent == 0 && len(c.threads[x].Paths) > 0 {
										combo[x-1] = c.threads[x].Paths[0]
									}
								}
								combo[t-1], combo[u-1] = p, q
								res.ConcCombos++
								ex.lostUpdateCombo(combo, r, w, w2, st)
							}
						}
					}
				}
			}
		}
	}
	if st.Posed == 0 {
		// nothing to discharge: every read-modify-write of the explored paths is inside one critical section
		st.Reached++
		st.Posed++
		st.Discharged++
		st.Trivial++
	}
}

// lostUpdateCombo poses the "w2 between r and w" query on one combination of paths.
func (ex *Exec) lostUpdateCombo(combo []*ThreadPath, r, w, w2 *Event, st *OblStat) {
	c := ex.conc
	res := ex.sess.res
	var events []*Event
	for _, p := range combo {
		if p != nil {
			events = append(events, p.Events...)
		}
	}
	var sb strings.Builder
	for _, e := range events {
		fmt.Fprintf(&sb, "(declare-const %s Int)\n", ex.clk(e))
	}
	lt := func(x, y *Event) string { return "(< " + ex.clk(x) + " " + ex.clk(y) + ")" }
	names := make([]string, len(events))
	for i, e := range events {
		names[i] = ex.clk(e)
		fmt.Fprintf(&sb, "(assert (and (<= 1 %s) (<= %s %d)))\n", ex.clk(e), ex.clk(e), len(events))
	}
	if len(events) > 1 {
		fmt.Fprintf(&sb, "(assert (distinct %s))\n", strings.Join(names, " "))
	}
	var secs []*lockSection
	for ti, p := range combo {
		if p == nil {
			continue
		}
		for i := 1; i < len(p.Events); i++ {
			fmt.Fprintf(&sb, "(assert %s)\n", lt(p.Events[i-1], p.Events[i]))
		}
		open := map[string][]*lockSection{}
		for _, e := range p.Events {
			switch e.Kind {
			case "lock", "rlock":
				s := &lockSection{thread: ti, lock: e, read: e.Kind == "rlock"}
				open[e.Loc] = append(open[e.Loc], s)
				secs = append(secs, s)
			case "unlock", "runlock":
				if l := open[e.Loc]; len(l) > 0 {
					l[len(l)-1].unl = e
					open[e.Loc] = l[:len(l)-1]
				}
			}
		}
	}
	for i := 0; i < len(secs); i++ {
		for j := i + 1; j < len(secs); j++ {
			x, y := secs[i], secs[j]
			if x.lock.Loc != y.lock.Loc || x.thread == y.thread || (x.read && y.read) {
				continue
			}
			var alts []string
			if x.unl != nil {
				alts = append(alts, lt(x.unl, y.lock))
			}
			if y.unl != nil {
				alts = append(alts, lt(y.unl, x.lock))
			}
			if len(alts) == 0 {
				sb.WriteString("(assert false)\n")
			} else {
				fmt.Fprintf(&sb, "(assert (or %s))\n", strings.Join(alts, " "))
			}
		}
	}
	fmt.Fprintf(&sb, "(assert (and %s %s))\n", lt(r, w2), lt(w2, w))
	solver := ex.sess.solver
	solver.Send("(reset)\n" + sb.String())
	t0 := time.Now()
	ans := solver.CheckSat(ex.sess.oblTO)
	res.Queries++
	res.SolverTime += time.Since(t0)
	st.SolverMs += float64(time.Since(t0)) / 1e6
	if ans == "unsat" {
		st.Discharged++
		return
	}
	if ans != "sat" {
		res.Inconclusive = append(res.Inconclusive, fmt.Sprintf("%s: atomicity query: solver answered %s", ex.h.Name, firstLine(ans)))
		return
	}
	ra := recAssert{ID: "updates-are-atomic", Kind: "atomicity", Pos: r.Pos + " / " + w.Pos}
	ra.Msg = fmt.Sprintf("lost update on %s: %s reads it at %s [%s] and writes a value computed from that read at %s [%s]; %s writes it in between at %s [%s]",
		w.Loc, c.threads[r.Thread].Name, r.Pos, strings.Join(r.Held, ","), w.Pos, strings.Join(w.Held, ","), c.threads[w2.Thread].Name, w2.Pos, strings.Join(w2.Held, ","))
	rr := NewRenderer(ex.h.Mode)
	cand := ex.concCandidate(solver, rr, ra, events, combo)
	cand.Classes = map[string]bool{"stale_read_site:" + siteOf(r.Pos) + "|" + siteOf(w.Pos): true}
	if st.Sample == "" {
		st.Sample = ra.Msg
	}
	cand.Known = matchKnown(ex.sess.known, cand)
	res.Candidates = append(res.Candidates, cand)
}

// noteDeps records on a write / read-modify-write event the earlier reads of this path its value
// depends on: data dependencies (variables of the written operand) and control dependencies
// (variables of the branch conditions taken so far).  Only with the harness option atomic=...
func (ex *Exec) noteDeps(we *Event, operand *Term) {
	c := ex.conc
	if ex.h.Opts["atomic"] == "" || c.mode != "thread" || len(c.cur.readVar) == 0 {
		return
	}
	dep := map[*Event]bool{}
	for id := range VarIDs(operand) {
		if re, ok := c.cur.readVar[id]; ok {
			dep[re] = true
		}
	}
	for _, pc := range ex.sess.pcSince(c.pcMark) {
		for id := range VarIDs(pc) {
			if re, ok := c.cur.readVar[id]; ok {
				dep[re] = true
			}
		}
	}
	for re := range dep {
		we.DepReads = append(we.DepReads, re)
	}
	sort.Slice(we.DepReads, func(i, j int) bool { return we.DepReads[i].Idx < we.DepReads[j].Idx })
}
