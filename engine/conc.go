package main

// Concurrent (event-order) mode.  Placeholder hooks; see conc_*.go.

import (
	"golang.org/x/tools/go/ssa"
)

func runConcHarness(cfg *Config, ld *Loaded, h *Harness, fn *ssa.Function, solver *Solver, res *HarnessResult, known []*Finding) {
	res.Errors = append(res.Errors, "concurrent mode not built yet")
}


type ConcState struct {
	curThread int
}

func (ex *Exec) concLoad(p *Ptr) Value                         { panic(unsupported("conc mode")) }
func (ex *Exec) concStore(p *Ptr, v Value)                     { panic(unsupported("conc mode")) }
func (ex *Exec) concMapAccess(m *MapV, write bool)             { panic(unsupported("conc mode")) }
func (ex *Exec) concLock(p *Ptr, op string)                    { panic(unsupported("conc mode")) }
func (ex *Exec) concCond(p *Ptr, op string)                    { panic(unsupported("conc mode")) }
func (ex *Exec) concWaitGroup(p *Ptr, op string, d *Term)      { panic(unsupported("conc mode")) }
func (ex *Exec) concAtomic(op string, p *Ptr, a, b *Term) Value { panic(unsupported("conc mode")) }
func (ex *Exec) concTimerCreated(t *timerState)                {}
func (ex *Exec) concTimerStopped(t *timerState)                {}
func (ex *Exec) concSend(ch *ChanV, v Value, blocking bool)    { panic(unsupported("conc mode")) }
func (ex *Exec) concClose(ch *ChanV)                           { panic(unsupported("conc mode")) }
func (ex *Exec) concRecv(ch *ChanV) (Value, *Term)             { panic(unsupported("conc mode")) }
func (ex *Exec) concSelect(fr *Frame, x *ssa.Select) Value     { panic(unsupported("conc mode")) }
func (ex *Exec) concGo(fnv Value, args []Value)                { panic(unsupported("conc mode")) }
func (ex *Exec) spawn(name string, f *Closure)                 { panic(unsupported("conc mode")) }
func (ex *Exec) runParallel()                                  { panic(unsupported("conc mode")) }
