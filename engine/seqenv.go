package main

// Sequential-mode models of sync, sync/atomic, channels, select, timers and `go`.
// In concurrent (event-order) mode these calls are routed to conc.go.

import (
	"fmt"
	"go/types"

	"golang.org/x/tools/go/ssa"
)

type timerState struct {
	ID      int
	ArmedAt *Term
	D       *Term
	Stopped bool
	Ch      *ChanV
	Ticker  bool
}

type goBlocked struct{ why string }

func (ex *Exec) lockOf(p *Ptr) *lockState {
	k := p.key()
	ls, ok := ex.locks[k]
	if !ok {
		ls = &lockState{}
		ex.locks[k] = ls
	}
	return ls
}

func registerSyncIntrinsics() {
	I := intrinsics
	I["(*sync.Mutex).Lock"] = func(ex *Exec, a []Value) Value {
		p := a[0].(*Ptr)
		if ex.conc != nil {
			ex.concLock(p, "lock")
			return nil
		}
		ls := ex.lockOf(p)
		if ls.w > 0 {
			panic(ex.rtFail("deadlock", "sync.Mutex.Lock on a mutex already held by this call chain (self-deadlock)"))
		}
		ls.w = 1
		return nil
	}
	I["(*sync.Mutex).Unlock"] = func(ex *Exec, a []Value) Value {
		p := a[0].(*Ptr)
		if ex.conc != nil {
			ex.concLock(p, "unlock")
			return nil
		}
		ls := ex.lockOf(p)
		if ls.w == 0 {
			panic(ex.rtFail("unlock", "sync: unlock of unlocked mutex"))
		}
		ls.w = 0
		return nil
	}
	// TryLock / TryRLock: sequential mode: succeeds iff this call chain does not hold the lock in a
	// conflicting mode; concurrent mode: the path forks into success (an ordinary critical section)
	// and failure (an event that needs a conflicting section of another thread open at that instant)
	tryLock := func(read bool) Intrinsic {
		return func(ex *Exec, a []Value) Value {
			p := a[0].(*Ptr)
			if ex.conc != nil && ex.conc.active() && ex.conc.mode != "final" {
				if ex.ctl.Choose(2, func(int) bool { return true }) == 0 {
					if read {
						ex.concLock(p, "rlock")
					} else {
						ex.concLock(p, "lock")
					}
					return ex.ts.Bool(true)
				}
				aux := "w"
				if read {
					aux = "r"
				}
				ex.addEvent(&Event{Kind: "trylockfail", Loc: "lock:" + ex.locKey(p), Aux: aux})
				return ex.ts.Bool(false)
			}
			ls := ex.lockOf(p)
			if ls.w > 0 || (!read && ls.r > 0) {
				return ex.ts.Bool(false)
			}
			if read {
				ls.r++
			} else {
				ls.w = 1
			}
			return ex.ts.Bool(true)
		}
	}
	I["(*sync.Mutex).TryLock"] = tryLock(false)
	I["(*sync.RWMutex).TryLock"] = tryLock(false)
	I["(*sync.RWMutex).TryRLock"] = tryLock(true)
	I["(*sync.RWMutex).Lock"] = func(ex *Exec, a []Value) Value {
		p := a[0].(*Ptr)
		if ex.conc != nil {
			ex.concLock(p, "wlock")
			return nil
		}
		ls := ex.lockOf(p)
		if ls.w > 0 || ls.r > 0 {
			panic(ex.rtFail("deadlock", "sync.RWMutex.Lock while the lock is already held by this call chain (self-deadlock)"))
		}
		ls.w = 1
		return nil
	}
	I["(*sync.RWMutex).Unlock"] = func(ex *Exec, a []Value) Value {
		p := a[0].(*Ptr)
		if ex.conc != nil {
			ex.concLock(p, "wunlock")
			return nil
		}
		ls := ex.lockOf(p)
		if ls.w == 0 {
			panic(ex.rtFail("unlock", "sync: Unlock of unlocked RWMutex"))
		}
		ls.w = 0
		return nil
	}
	I["(*sync.RWMutex).RLock"] = func(ex *Exec, a []Value) Value {
		p := a[0].(*Ptr)
		if ex.conc != nil {
			ex.concLock(p, "rlock")
			return nil
		}
		ls := ex.lockOf(p)
		if ls.w > 0 {
			panic(ex.rtFail("deadlock", "sync.RWMutex.RLock while write-locked by this call chain (self-deadlock)"))
		}
		ls.r++
		return nil
	}
	I["(*sync.RWMutex).RUnlock"] = func(ex *Exec, a []Value) Value {
		p := a[0].(*Ptr)
		if ex.conc != nil {
			ex.concLock(p, "runlock")
			return nil
		}
		ls := ex.lockOf(p)
		if ls.r == 0 {
			panic(ex.rtFail("unlock", "sync: RUnlock of unlocked RWMutex"))
		}
		ls.r--
		return nil
	}
	I["sync.NewCond"] = func(ex *Exec, a []Value) Value {
		ct := ex.prog.ImportedPackage("sync").Type("Cond").Type()
		o := ex.newObject(ex.zero(ct), "sync.Cond@"+ex.curPos(), ct)
		st := ct.Underlying().(*types.Struct)
		for i := 0; i < st.NumFields(); i++ {
			if st.Field(i).Name() == "L" {
				o.V.(*StructV).Fields[i] = a[0]
			}
		}
		return &Ptr{Obj: o}
	}
	I["(*sync.Cond).Broadcast"] = func(ex *Exec, a []Value) Value {
		if ex.conc != nil {
			ex.concCond(a[0].(*Ptr), "broadcast")
			return nil
		}
		ex.ghostCount("cond.broadcast")
		return nil
	}
	I["(*sync.Cond).Signal"] = func(ex *Exec, a []Value) Value {
		if ex.conc != nil {
			ex.concCond(a[0].(*Ptr), "signal")
			return nil
		}
		ex.ghostCount("cond.signal")
		return nil
	}
	I["(*sync.Cond).Wait"] = func(ex *Exec, a []Value) Value {
		if ex.conc != nil {
			ex.concCond(a[0].(*Ptr), "wait")
			return nil
		}
		// sequential summary: the waiter is either signalled (returns holding L) or never
		sig := ex.nondet("cond.signalled", SBool)
		if ex.branch(sig, nil) {
			return nil
		}
		// release L (Wait unlocks before parking) and block forever
		c := a[0].(*Ptr)
		ct := c.Obj.Typ.Underlying().(*types.Struct)
		for i := 0; i < ct.NumFields(); i++ {
			if ct.Field(i).Name() == "L" {
				if liv, ok := ex.rawLoad(c.child(i)).(*IfaceV); ok {
					if lp, ok := liv.V.(*Ptr); ok {
						ex.lockOf(lp).w = 0
					}
				}
			}
		}
		panic(goBlocked{"sync.Cond.Wait never signalled"})
	}
	I["(*sync.WaitGroup).Add"] = func(ex *Exec, a []Value) Value {
		if ex.conc != nil {
			ex.concWaitGroup(a[0].(*Ptr), "add", a[1].(*Term))
			return nil
		}
		return nil
	}
	I["(*sync.WaitGroup).Done"] = func(ex *Exec, a []Value) Value {
		if ex.conc != nil {
			ex.concWaitGroup(a[0].(*Ptr), "done", nil)
			return nil
		}
		return nil
	}
	I["(*sync.WaitGroup).Wait"] = func(ex *Exec, a []Value) Value {
		if ex.conc != nil {
			ex.concWaitGroup(a[0].(*Ptr), "wait", nil)
			return nil
		}
		return nil
	}

	// atomics
	for _, w := range []string{"Int32", "Int64", "Uint32", "Uint64"} {
		w := w
		I["sync/atomic.Load"+w] = func(ex *Exec, a []Value) Value {
			if ex.conc != nil {
				return ex.concAtomic("load", a[0].(*Ptr), nil, nil)
			}
			return ex.load(a[0].(*Ptr))
		}
		I["sync/atomic.Store"+w] = func(ex *Exec, a []Value) Value {
			if ex.conc != nil {
				ex.concAtomic("store", a[0].(*Ptr), a[1].(*Term), nil)
				return nil
			}
			ex.store(a[0].(*Ptr), a[1])
			return nil
		}
		I["sync/atomic.Add"+w] = func(ex *Exec, a []Value) Value {
			if ex.conc != nil {
				return ex.concAtomic("add", a[0].(*Ptr), a[1].(*Term), nil)
			}
			p := a[0].(*Ptr)
			nv := ex.ts.IntBin("add", ex.load(p).(*Term), a[1].(*Term))
			ex.store(p, nv)
			return nv
		}
		I["sync/atomic.Swap"+w] = func(ex *Exec, a []Value) Value {
			// sequential: exchange; concurrent: one read-modify-write event whose written value is the operand
			if ex.conc != nil {
				return ex.concAtomic("swap", a[0].(*Ptr), a[1].(*Term), nil)
			}
			p := a[0].(*Ptr)
			old := ex.load(p)
			ex.store(p, a[1])
			return old
		}
		I["sync/atomic.CompareAndSwap"+w] = func(ex *Exec, a []Value) Value {
			if ex.conc != nil {
				return ex.concAtomic("cas", a[0].(*Ptr), a[1].(*Term), a[2].(*Term))
			}
			p := a[0].(*Ptr)
			old := ex.load(p).(*Term)
			eq := ex.ts.IntCmp("eq", old, a[1].(*Term))
			ex.store(p, ex.ts.Ite(eq, a[2].(*Term), old))
			return eq
		}
	}
}

// typed atomics (atomic.Int32 ... atomic.Bool): the value lives in the struct's field "v"
func registerTypedAtomics() {
	I := intrinsics
	field := func(ex *Exec, tname string, p *Ptr) *Ptr {
		pkg := ex.prog.ImportedPackage("sync/atomic")
		if pkg == nil {
			panic(unsupported("sync/atomic not loaded"))
		}
		st := pkg.Type(tname).Type().Underlying().(*types.Struct)
		for i := 0; i < st.NumFields(); i++ {
			if st.Field(i).Name() == "v" {
				return p.child(i)
			}
		}
		panic(unsupported("atomic." + tname + ": no value field"))
	}
	for _, w := range []string{"Int32", "Int64", "Uint32", "Uint64"} {
		w := w
		I["(*sync/atomic."+w+").Load"] = func(ex *Exec, a []Value) Value {
			return intrinsics["sync/atomic.Load"+w](ex, []Value{field(ex, w, a[0].(*Ptr))})
		}
		I["(*sync/atomic."+w+").Store"] = func(ex *Exec, a []Value) Value {
			return intrinsics["sync/atomic.Store"+w](ex, []Value{field(ex, w, a[0].(*Ptr)), a[1]})
		}
		I["(*sync/atomic."+w+").Add"] = func(ex *Exec, a []Value) Value {
			return intrinsics["sync/atomic.Add"+w](ex, []Value{field(ex, w, a[0].(*Ptr)), a[1]})
		}
		I["(*sync/atomic."+w+").Swap"] = func(ex *Exec, a []Value) Value {
			return intrinsics["sync/atomic.Swap"+w](ex, []Value{field(ex, w, a[0].(*Ptr)), a[1]})
		}
		I["(*sync/atomic."+w+").CompareAndSwap"] = func(ex *Exec, a []Value) Value {
			return intrinsics["sync/atomic.CompareAndSwap"+w](ex, []Value{field(ex, w, a[0].(*Ptr)), a[1], a[2]})
		}
	}
}

// sync.Map (sequential harnesses only): modelled as a plain map with concrete keys, kept per
// sync.Map object; in the concurrent mode it is unsupported (INCONCLUSIVE).
func registerSyncMap() {
	I := intrinsics
	get := func(ex *Exec, v Value) *MapV {
		if ex.conc != nil && ex.conc.active() {
			panic(unsupported("sync.Map in the concurrent mode"))
		}
		k := "syncmap:" + v.(*Ptr).key()
		if m, ok := ex.ghost[k].(*MapV); ok {
			return m
		}
		m := &MapV{ID: ex.freshID(), Entries: map[string]*mapEntry{}}
		ex.ghost[k] = m
		return m
	}
	I["(*sync.Map).Load"] = func(ex *Exec, a []Value) Value {
		m := get(ex, a[0])
		if e, ok := m.Entries[ex.keyString(a[1])]; ok {
			return TupleV{copyVal(e.V), ex.ts.Bool(true)}
		}
		return TupleV{&IfaceV{}, ex.ts.Bool(false)}
	}
	I["(*sync.Map).Store"] = func(ex *Exec, a []Value) Value {
		get(ex, a[0]).Entries[ex.keyString(a[1])] = &mapEntry{K: a[1], V: copyVal(a[2])}
		return nil
	}
	I["(*sync.Map).LoadOrStore"] = func(ex *Exec, a []Value) Value {
		m := get(ex, a[0])
		if e, ok := m.Entries[ex.keyString(a[1])]; ok {
			return TupleV{copyVal(e.V), ex.ts.Bool(true)}
		}
		m.Entries[ex.keyString(a[1])] = &mapEntry{K: a[1], V: copyVal(a[2])}
		return TupleV{copyVal(a[2]), ex.ts.Bool(false)}
	}
	I["(*sync.Map).LoadAndDelete"] = func(ex *Exec, a []Value) Value {
		m := get(ex, a[0])
		if e, ok := m.Entries[ex.keyString(a[1])]; ok {
			delete(m.Entries, ex.keyString(a[1]))
			return TupleV{copyVal(e.V), ex.ts.Bool(true)}
		}
		return TupleV{&IfaceV{}, ex.ts.Bool(false)}
	}
	I["(*sync.Map).Delete"] = func(ex *Exec, a []Value) Value {
		delete(get(ex, a[0]).Entries, ex.keyString(a[1]))
		return nil
	}
}

func (ex *Exec) ghostCount(k string) {
	n := 0
	if v, ok := ex.ghost[k]; ok {
		n = v.(int)
	}
	ex.ghost[k] = n + 1
}

// ---------------------------------------------------------------------------
// timers

func (ex *Exec) now() *Term {
	if ex.clock == nil {
		ex.clock = ex.ts.IntS(SInt(64, true), 0)
	}
	return ex.clock
}

func (ex *Exec) newTimer(d *Term, ticker bool) Value {
	name := "Timer"
	if ticker {
		name = "Ticker"
	}
	tt := ex.prog.ImportedPackage("time").Type(name).Type()
	ts := &timerState{ID: len(ex.timers) + 1, ArmedAt: ex.now(), D: d, Ticker: ticker}
	ts.Ch = &ChanV{ID: ex.freshID(), Cap: 1, Label: fmt.Sprintf("timer%d.C", ts.ID), TimerID: ts.ID}
	ex.allChans = append(ex.allChans, ts.Ch)
	ex.timers = append(ex.timers, ts)
	if ex.conc != nil {
		ex.concTimerCreated(ts)
	}
	o := ex.newObject(ex.zero(tt), fmt.Sprintf("time.%s#%d", name, ts.ID), tt)
	st := tt.Underlying().(*types.Struct)
	for i := 0; i < st.NumFields(); i++ {
		if st.Field(i).Name() == "C" {
			o.V.(*StructV).Fields[i] = ts.Ch
		}
	}
	o.Label = fmt.Sprintf("timer#%d", ts.ID)
	ex.ghost[fmt.Sprintf("timerobj%d", o.ID)] = ts
	return &Ptr{Obj: o}
}

func (ex *Exec) timerStop(v Value) Value {
	p := v.(*Ptr)
	ts, ok := ex.ghost[fmt.Sprintf("timerobj%d", p.Obj.ID)].(*timerState)
	if !ok {
		panic(unsupported("Stop on unknown timer"))
	}
	was := !ts.Stopped
	ts.Stopped = true
	if ex.conc != nil {
		ex.concTimerStopped(ts)
	}
	return ex.ts.Bool(was)
}

// ---------------------------------------------------------------------------
// channels (sequential mode)

func (ex *Exec) chanSend(ch *ChanV, v Value) {
	if ex.conc != nil {
		ex.concSend(ch, v, true)
		return
	}
	if ch.Nil {
		panic(goBlocked{"send on nil channel"})
	}
	if ch.Closed {
		panic(ex.rtFail("send-closed", "send on closed channel"))
	}
	if len(ch.Buf) < ch.Cap {
		ch.Buf = append(ch.Buf, v)
		return
	}
	panic(goBlocked{"send on " + ch.Label + " with no receiver"})
}

func (ex *Exec) chanClose(ch *ChanV) {
	if ex.conc != nil {
		ex.concClose(ch)
		return
	}
	if ch.Nil {
		panic(ex.rtFail("close-nil", "close of nil channel"))
	}
	if ch.Closed {
		panic(ex.rtFail("close-closed", "close of closed channel"))
	}
	ch.Closed = true
}

func (ex *Exec) chanRecv(ch *ChanV) (Value, *Term) {
	if ex.conc != nil {
		return ex.concRecv(ch)
	}
	if !ch.Nil && len(ch.Buf) > 0 {
		v := ch.Buf[0]
		ch.Buf = ch.Buf[1:]
		return v, ex.ts.Bool(true)
	}
	if !ch.Nil && ch.Closed {
		return ex.zeroOrNil(ch.Elem), ex.ts.Bool(false)
	}
	panic(goBlocked{"receive on " + ch.Label + " with no sender"})
}

func (ex *Exec) zeroOrNil(t types.Type) Value {
	if t == nil {
		return nil
	}
	return ex.zero(t)
}

// selectStmt: sequential model per DESIGN Appendix B.
func (ex *Exec) selectStmt(fr *Frame, x *ssa.Select) Value {
	if ex.conc != nil {
		return ex.concSelect(fr, x)
	}
	ts := ex.ts
	i64 := SInt(64, true)
	n := len(x.States)
	if x.Blocking {
		ex.bumpSite(x) // bound on re-entering the same blocking select (poll / retry loops)
	}
	chans := make([]*ChanV, n)
	sendVals := make([]Value, n)
	for i, st := range x.States {
		chans[i] = ex.get(fr, st.Chan).(*ChanV)
		if st.Send != nil {
			sendVals[i] = ex.get(fr, st.Send)
		}
	}
	now := ex.now()
	wake := now
	if x.Blocking {
		ex.nowCnt++
		wake = ex.nondet(fmt.Sprintf("wake%d", ex.nowCnt), i64)
		ex.sess.AssertPC(ts.And(ts.IntCmp("le", now, wake), ts.IntCmp("le", wake, ts.IntS(i64, 1<<62))))
	}
	ready := make([]*Term, n)
	never := make([]*Term, n) // condition under which the case can never become ready
	var latest []*Term        // earliest-wake bounds
	for i, st := range x.States {
		ch := chans[i]
		switch {
		case ch.Nil:
			ready[i], never[i] = ts.Bool(false), ts.Bool(true)
		case st.Dir == types.SendOnly:
			if ch.Closed {
				panic(ex.rtFail("send-closed", "send on closed channel"))
			}
			if len(ch.Buf) < ch.Cap {
				ready[i], never[i] = ts.Bool(true), ts.Bool(false)
			} else if ch.Offered != nil {
				ready[i], never[i] = ch.Offered, ts.Not(ch.Offered)
			} else {
				ready[i], never[i] = ts.Bool(false), ts.Bool(true)
			}
		case ch.TimerID > 0:
			t := ex.timers[ch.TimerID-1]
			if t.Stopped || ex.h.NoTimers {
				// timers=off: the environment never lets a timer fire (what happens "without any
				// time-out" is the question of the harness)
				ready[i], never[i] = ts.Bool(false), ts.Bool(true)
			} else {
				fire := ts.IntBin("add", t.ArmedAt, t.D)
				ready[i], never[i] = ts.IntCmp("le", fire, wake), ts.Bool(false)
				latest = append(latest, fire)
			}
		case ch.Ctx != nil:
			ready[i] = ts.IntCmp("le", ch.Ctx.Cancel, wake)
			never[i] = ts.IntCmp("eq", ch.Ctx.Cancel, ts.IntS(i64, 1<<63-1))
			latest = append(latest, ch.Ctx.Cancel)
		case len(ch.Buf) > 0 || ch.Closed:
			ready[i], never[i] = ts.Bool(true), ts.Bool(false)
		case ch.Offered != nil:
			ready[i], never[i] = ch.Offered, ts.Not(ch.Offered)
		default:
			ready[i], never[i] = ts.Bool(false), ts.Bool(true)
		}
	}
	if x.Blocking {
		// earliest-wake rule: the select does not sleep past an instant at which a case became ready
		for _, b := range latest {
			ex.sess.AssertPC(ts.Or(ts.IntCmp("le", wake, b), ts.IntCmp("eq", wake, now)))
		}
		// and it wakes only when some case is ready
	}
	options := n + 1 // last = default / blocked forever
	conds := make([]*Term, options)
	copy(conds, ready)
	if x.Blocking {
		conds[n] = ts.And(never...)
	} else {
		nr := make([]*Term, n)
		for i := range ready {
			nr[i] = ts.Not(ready[i])
		}
		conds[n] = ts.And(nr...)
	}
	c := ex.explicitChoose(options, func(i int) bool {
		if conds[i].IsFalse() {
			return false
		}
		if conds[i].IsTrue() {
			return true
		}
		return ex.sess.Feasible(conds[i])
	})
	if c < 0 {
		panic(pathEnd{"select: no feasible outcome"})
	}
	ex.sess.AssertPC(conds[c])
	if x.Blocking {
		ex.clock = wake
	}
	res := TupleV{ts.IntS(i64, int64(c)), ts.Bool(false)}
	if c == n {
		if x.Blocking {
			panic(goBlocked{"select with no case that can ever become ready"})
		}
		res[0] = ts.IntS(i64, -1)
	}
	for i, st := range x.States {
		if st.Dir != types.RecvOnly {
			continue
		}
		et := st.Chan.Type().Underlying().(*types.Chan).Elem()
		var v Value = ex.zero(et)
		if i == c {
			ch := chans[i]
			switch {
			case ch.TimerID > 0:
				v = ex.timeValue(wake)
				res[1] = ts.Bool(true)
			case ch.Ctx != nil:
			case len(ch.Buf) > 0:
				v = ch.Buf[0]
				ch.Buf = ch.Buf[1:]
				res[1] = ts.Bool(true)
			case ch.Closed:
			case ch.Offered != nil:
				v = ch.OfferV
				res[1] = ts.Bool(true)
				ch.Offered = nil
			}
		}
		res = append(res, v)
	}
	if c < n && x.States[c].Dir == types.SendOnly {
		ch := chans[c]
		if len(ch.Buf) < ch.Cap {
			ch.Buf = append(ch.Buf, sendVals[c])
		} else {
			// handed to the offered receiver: record it on the channel for the harness
			ch.Buf = append(ch.Buf, sendVals[c])
			ch.Offered = nil
		}
	}
	return res
}

// goStmt in sequential mode: the goroutine runs immediately until it finishes or blocks forever.
func (ex *Exec) goStmt(fnv Value, args []Value) {
	if ex.conc != nil {
		ex.concGo(fnv, args)
		return
	}
	if ex.h.Opts["go"] == "defer" {
		// the goroutine is not run: it is recorded; the harness runs it explicitly (verif.RunGo)
		ex.deferredGo = append(ex.deferredGo, func() { ex.invoke(fnv, args, nil) })
		return
	}
	nframes := len(ex.frames)
	depth := ex.depth
	func() {
		defer func() {
			if r := recover(); r != nil {
				if _, ok := r.(goBlocked); ok {
					ex.frames = ex.frames[:nframes]
					ex.depth = depth
					return
				}
				panic(r)
			}
		}()
		ex.invoke(fnv, args, nil)
	}()
}
