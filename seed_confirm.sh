#!/bin/bash
# usage: seed_confirm.sh <ID>  - confirm a seeded change in a scratch worktree (no checks run)
set -u
ID="$1"; SD="${2:-/verif/seeded/$ID}"
export GOFLAGS=-mod=mod GOPROXY=off GOSUMDB=off GOTOOLCHAIN=local
W=$(mktemp -d /tmp/confseed.XXXXXX)
git -C /repo worktree add -q --detach "$W/r" HEAD || exit 2
cd "$W/r"
git apply "$( [ -f "$SD/patch_rebased.diff" ] && echo "$SD/patch_rebased.diff" || echo "$SD/patch.diff")" || { echo "PATCH-DOES-NOT-APPLY"; cd /; git -C /repo worktree remove --force "$W/r"; rm -rf "$W"; exit 2; }
go build ./core/... ./limit/... ./limiter/... ./measurements/... ./strategy/... ./patterns/... ./grpc/... ./metric_registry/... >/dev/null 2>&1; echo "build_exit=$?"
go test -vet=off -count=1 ./... >/tmp/conf_$ID.tests 2>&1; echo "tests_exit_with_change=$?"
DEMO=$(ls "$SD"/*_test.go | head -1)
DEST=$(head -3 "$DEMO" | grep -o 'copy to: *[^ ]*' | head -1 | sed 's/copy to: *//')
cp "$DEMO" "$DEST"; PKG=./$(dirname "$DEST")
RACE=""; [ "$ID" = "C17" ] && RACE="-race"
go test -vet=off -count=1 $RACE "$PKG" >/tmp/conf_$ID.with 2>&1; echo "demo_exit_with_change=$?"
git apply -R "$( [ -f "$SD/patch_rebased.diff" ] && echo "$SD/patch_rebased.diff" || echo "$SD/patch.diff")"
go test -vet=off -count=1 $RACE "$PKG" >/tmp/conf_$ID.without 2>&1; echo "demo_exit_without_change=$?"
cd /; git -C /repo worktree remove --force "$W/r"; rm -rf "$W"
