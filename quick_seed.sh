#!/bin/bash
# usage: quick_seed.sh <PROP> <seeddir> [harness]  - run the property's check (optionally one harness) against a
# scratch worktree of /repo HEAD with the seeded patch applied; no confirmation of the seed itself.
set -u
P="$1"; SD="$2"; H="${3:-}"
export GOFLAGS=-mod=mod GOPROXY=off GOSUMDB=off GOTOOLCHAIN=local
W=$(mktemp -d /tmp/qseed.XXXXXX)
git -C /repo worktree add -q --detach "$W/r" HEAD || exit 2
( cd "$W/r" && git apply "$( [ -f "$SD/patch_rebased.diff" ] && echo "$SD/patch_rebased.diff" || echo "$SD/patch.diff")" ) || { echo "PATCH-DOES-NOT-APPLY"; git -C /repo worktree remove --force "$W/r"; rm -rf "$W"; exit 2; }
HA=""; [ -n "$H" ] && HA="--harness $H"
cd /verif && timeout 3000 bin/gclverify check --property "$P" --repo "$W/r" --no-evidence $HA 2>&1 | sed 's/model=map\[[^]]*\]//' | grep -E "^SUMMARY|^VIOLATION|^INCONCLUSIVE|violation:|^KNOWN" | cut -c1-420 | head -${LINES_MAX:-14}
rm -rf /verif/replays
cd /; git -C /repo worktree remove --force "$W/r"; rm -rf "$W"
