package limiter

import (
	"context"
	"sync"
	"testing"
	"time"

	"github.com/platinummonkey/go-concurrency-limits/core"
)

type refusingDelegate struct{}

func (d *refusingDelegate) Acquire(ctx context.Context) (core.Listener, bool) { return nil, false }

// Callers that arrive together all read the backlog length before any of them enqueues.  The test
// holds the backlog's write lock while the callers arrive, so that they all wait at the length check,
// and then lets them go at once.
func TestC12BacklogBoundConcurrentArrivals(t *testing.T) {
	const callers = 4
	q := NewQueueBlockingLimiterFromConfig(&refusingDelegate{}, QueueLimiterConfig{Ordering: OrderingFIFO, MaxBacklogSize: 1, MaxBacklogTimeout: 300 * time.Millisecond})
	q.backlog.mu.Lock()
	var done sync.WaitGroup
	for i := 0; i < callers; i++ {
		done.Add(1)
		go func() { defer done.Done(); q.Acquire(context.Background()) }()
	}
	time.Sleep(50 * time.Millisecond) // all callers are now waiting to read the backlog length
	q.backlog.mu.Unlock()
	time.Sleep(50 * time.Millisecond)
	if n := q.backlog.len(); n > 1 {
		t.Errorf("backlog holds %d blocked callers, configured maximum is 1", n)
	}
	done.Wait()
}
