#!/bin/bash
# runs the thorough tier of every check in turn (used with `vp run` to confirm that the deep bounds are clean)
cd "$(dirname "$0")"
for i in $(seq -w 1 20); do
  s=$(date +%s)
  ./check.sh C$i thorough > thorough_C$i.log 2>&1
  echo "C$i exit=$? $(( $(date +%s) - s ))s $(grep -h '^SUMMARY' thorough_C$i.log | cut -c1-220)"
done
