#!/bin/bash
# usage: check.sh <property-id> [quick|thorough]
# Rebuilds nothing from caches of /repo: the engine loads /repo's current working tree,
# rebuilds its SSA and re-generates every SMT encoding on each run.
set -u
cd "$(dirname "$0")"
export GOFLAGS=-mod=mod GOPROXY=off GOSUMDB=off GOTOOLCHAIN=local GOWORK=off
# the engine reads harnesses, findings and writes evidence / replays under the directory of this script
export VERIF_DIR="${VERIF_DIR:-$(pwd)}"
PROP="$1"
TIER="${2:-${VERIF_TIER:-quick}}"
if [ ! -x bin/gclverify ] || [ -n "$(find engine -name '*.go' -newer bin/gclverify 2>/dev/null | head -1)" ]; then
  mkdir -p bin
  (cd engine && go build -o ../bin/gclverify .) || { echo "INCONCLUSIVE property=$PROP engine build failed"; exit 3; }
fi
exec bin/gclverify check --property "$PROP" --tier "$TIER"
